#!/bin/sh
# usage: confirm_seed.sh <id>  — independent confirmation of a seeded change in a scratch worktree of /repo:
# the patched tree builds, the existing suite passes, the demonstration passes without the patch and fails with it.
id=$1
S=/verif/seeded/$id
W=/tmp/cw_$id
git -C /repo worktree remove --force $W 2>/dev/null; rm -rf $W
git -C /repo worktree add -f $W HEAD >/dev/null 2>&1 || exit 3
cd $W
build_cmd=$(python3 -c "import json;print(json.load(open('$S/meta.json')).get('demo_build_cmd',''))" 2>/dev/null)
flags=$(echo "$build_cmd" | grep -o -- '-fno-lifetime-dse\|-O0' | tr '\n' ' ')
g++ -std=c++17 $flags -I$W/include $S/demo.cpp -o $W/demo_clean > $W/demo_clean.log 2>&1; ./demo_clean > /dev/null 2>&1; clean_rc=$?
git apply $S/patch.diff || { echo "patch does not apply"; exit 3; }
g++ -std=c++17 $flags -I$W/include $S/demo.cpp -o $W/demo_patched > $W/demo_patched.log 2>&1; ./demo_patched > /dev/null 2>&1; patched_rc=$?
cmake -G Ninja -S $W -B $W/_b -DYOMM2_ENABLE_TESTS=ON -DCMAKE_BUILD_TYPE=RelWithDebInfo -DCMAKE_CXX_FLAGS=-Wno-error > $W/cfg.log 2>&1 && cmake --build $W/_b -j${J:-6} > $W/build.log 2>&1
build_rc=$?
suite=$(ctest --test-dir $W/_b -j8 --timeout 900 2>&1 | grep "tests passed" | head -1)
python3 - <<PY
import json
json.dump({'seed': '$id', 'repo_head': '$(git -C /repo log --format=%h -1)', 'demo_exit_without_patch': $clean_rc, 'demo_exit_with_patch': $patched_rc,
           'suite_build_rc_with_patch': $build_rc, 'suite_with_patch': '''$suite'''.strip(),
           'commands': ['git worktree add /tmp/cw_$id HEAD', 'g++ -std=c++17 $flags -Iinclude demo.cpp (clean, then after git apply patch.diff)',
                        'cmake -G Ninja -DYOMM2_ENABLE_TESTS=ON ... && cmake --build && ctest -j8 --timeout 900 (patched tree)']},
          open('$S/confirm.json', 'w'), indent=1)
PY
cat $S/confirm.json | tr '\n' ' '; echo
cd /; git -C /repo worktree remove --force $W

#!/bin/sh
# Official confirmation of the seeded changes: apply each in /repo, run the check(s) of its property, undo it straight afterwards.
# Run only when nothing else reads /repo.  Output: seeded/matrix.log
cd /verif
out=/verif/seeded/matrix.log
# ROUND5=1: only the round-5 seeds, appended to the log
if [ -n "$ROUND5" ]; then set -- "C01c C01" "C02c C02" "C03c C03" "C05c C05" "C12c C12" "C13c C13" "C14c C14" "C17c C17"; else : > $out; set -- "C01 C01" "C02 C02" "C03 C03" "C04 C04" "C05 C05" "C06 C06" "C07 C07" "C07 C03" "C08 C08" "C08 C04" "C09 C09" "C10 C10" "C11 C11" "C12 C12" "C14 C14" "C15 C15" "C16 C16" "C17 C17" "C18 C18" "C01b C01" "C01b C07" "C03b C03" "C04b C04" "C05b C05" "C07b C07" "C09b C09" "C17b C17" "C18b C18" "C02b C02" "C06b C06" "C08b C08" "C10b C10" "C11b C11" "C12b C12" "C14b C14" "C15b C15" "C16b C16" "C04c C04" "C07c C07" "C09c C09" "C10c C10" "C15c C15" "C18c C18"; fi
for pair in "$@"; do
  set_pair() { s1=$1; s2=$2; }; set_pair $pair
  [ -z "$(git -C /repo status --porcelain --untracked-files=no)" ] || { echo "/repo not clean"; exit 3; }
  git -C /repo apply /verif/seeded/$s1/patch.diff || { echo "seed $s1: patch does not apply" >> $out; continue; }
  VERIF_EVIDENCE_DIR=/tmp/mut_evidence python3 runner.py $s2 --tier quick > /tmp/matrix_${s1}_${s2}.log 2>&1
  rc=$?
  git -C /repo checkout -- .
  echo "seed $s1 check $s2 exit=$rc violations=$(grep -c '^VIOLATION' /tmp/matrix_${s1}_${s2}.log) inconclusive=$(grep -c '^INCONCLUSIVE' /tmp/matrix_${s1}_${s2}.log) first: $(grep -m1 -A1 '^VIOLATION' /tmp/matrix_${s1}_${s2}.log | tail -1 | cut -c1-90)" >> $out
done
echo done >> $out

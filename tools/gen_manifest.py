#!/usr/bin/env python3
"""Regenerates MANIFEST.json from checks/*.py metadata (MANIFEST dict in each module) and the not-applicable table."""
import importlib, json, os, sys
V = os.path.dirname(os.path.dirname(os.path.abspath(__file__)))
sys.path.insert(0, V)
props = [json.loads(l)['id'] for l in open(os.path.join(V, 'properties.jsonl'))]
NA = json.load(open(os.path.join(V, 'tools', 'not_applicable.json')))
checks = []
na = []
for pid in props:
    if os.path.exists(os.path.join(V, 'checks', pid + '.py')):
        m = importlib.import_module('checks.' + pid)
        meta = getattr(m, 'MANIFEST', None)
        if meta:
            c = {
                'property_id': pid,
                'quick_cmd': 'python3 runner.py %s --tier quick' % pid,
                'thorough_cmd': 'python3 runner.py %s --tier thorough' % pid,
                'evidence_file': '/verif/evidence/%s.json' % pid,
                'replay_cmd_template': 'python3 runner.py %s --replay {path}' % pid,
                'engine': 'cbmc-via-ll2c',
                'level_claimed': {'category': getattr(m, 'LEVEL', 'model_checking'), 'text': meta['level_text'], 'design_ref': meta.get('design_ref', 'DESIGN.md §3 ' + pid)},
                'level_note': meta['level_note'],
                'technique': meta.get('technique', 'bounded symbolic execution of the real code (clang-14 IR -> ll2c -> CBMC/SAT), native replay of counterexamples'),
            }
            checks.append(c)
            continue
    na.append({'property_id': pid, 'reason': NA.get(pid, 'check not built yet (work in progress in this round); nothing is claimed')})
man = {
    'version': 1,
    'setup_cmd': 'python3 tools/setup_check.py',
    'hooks': {
        'guard': 'YOMM2_VERIF',
        'enable': 'framework.py passes -DYOMM2_VERIF to every clang++/g++ compilation of a harness against /repo/include',
        'baseline_off_cmd': 'sh tools/baseline_off.sh',
        'source_commits': json.load(open(os.path.join(V, 'tools', 'hook_commits.json'))),
        'add_only': True,
    },
    'engines': [{
        'name': 'cbmc-via-ll2c', 'path': 'framework.py',
        'serves_properties': [c['property_id'] for c in checks],
        'kind_free_text': 'harness.cpp + real yomm2 headers -> clang++-14 -O1 LLVM IR -> tools/ll2c.py (own IR->C translator) -> cbmc 6.11 '
                          '(--unwind N --unwinding-assertions, all-properties, SAT); translated C and native g++ build are differential-tested '
                          'on every run; every solver counterexample and reachability witness is replayed on the native build',
    }],
    'checks': checks,
    'not_applicable': na,
    'notes': 'Exit codes: 0 held within bounds; 1 + VIOLATION line = counterexample reproduced on the native build; 2 = inconclusive '
             '(timeout, bound too small, translator/differential failure) - never reported as success or as a violation.',
}
json.dump(man, open(os.path.join(V, 'MANIFEST.json'), 'w'), indent=1)
print('checks:', [c['property_id'] for c in checks]); print('not_applicable:', [n['property_id'] for n in na])

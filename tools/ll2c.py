#!/usr/bin/env python3
"""ll2c: translate a subset of LLVM-14 textual IR (typed pointers) to C for CBMC.

Spike-quality but fail-loud: anything not understood raises, nothing is
silently dropped (except metadata / attributes / lifetime markers).
"""
import re, sys, collections

# ----------------------------------------------------------------------------
# tokenizer

TOK_RE = re.compile(r'''
    (?P<ws>\s+)
  | (?P<comment>;[^\n]*)
  | (?P<cstr>c"(?:[^"\\]|\\[0-9A-Fa-f]{2}|\\\\)*")
  | (?P<str>"(?:[^"\\]|\\.)*")
  | (?P<local>%(?:"(?:[^"\\]|\\.)*"|[-\w.$]+))
  | (?P<global>@(?:"(?:[^"\\]|\\.)*"|[-\w.$]+))
  | (?P<meta>!(?:[-\w.$]+|\{[^}]*\})?)
  | (?P<attr>\#\d+)
  | (?P<comdat>\$(?:"(?:[^"\\]|\\.)*"|[-\w.$]+))
  | (?P<float>-?\d+\.\d+(?:e[+-]?\d+)?|0x[KLMHR]?[0-9A-Fa-f]+)
  | (?P<int>-?\d+)
  | (?P<dots>\.\.\.)
  | (?P<word>[A-Za-z_][\w.]*)
  | (?P<punct>[()\[\]{}<>,=*:|])
''', re.X)


def tokenize(s):
    out = []
    pos = 0
    n = len(s)
    while pos < n:
        m = TOK_RE.match(s, pos)
        if not m:
            raise SyntaxError('cannot tokenize at: ' + s[pos:pos + 60])
        pos = m.end()
        k = m.lastgroup
        if k in ('ws', 'comment'):
            continue
        out.append((k, m.group(k)))
    return out


# ----------------------------------------------------------------------------
# types

class Ty:
    pass


class IntTy(Ty):
    def __init__(s, bits): s.bits = bits
    def key(s): return 'i%d' % s.bits


class VoidTy(Ty):
    def key(s): return 'void'


class FloatTy(Ty):
    def __init__(s, name): s.name = name
    def key(s): return s.name


class PtrTy(Ty):
    def __init__(s, to): s.to = to
    def key(s): return 'P(' + s.to.key() + ')'


class ArrTy(Ty):
    def __init__(s, n, el): s.n = n; s.el = el
    def key(s): return 'A%d(%s)' % (s.n, s.el.key())


class StructTy(Ty):  # literal struct
    def __init__(s, fields, packed): s.fields = fields; s.packed = packed
    def key(s): return ('Sp' if s.packed else 'S') + '(' + ','.join(f.key() for f in s.fields) + ')'


class NamedTy(Ty):
    def __init__(s, name): s.name = name
    def key(s): return 'N(' + s.name + ')'


class FnTy(Ty):
    def __init__(s, ret, params, vararg): s.ret = ret; s.params = params; s.vararg = vararg
    def key(s): return 'F(%s;%s%s)' % (s.ret.key(), ','.join(p.key() for p in s.params), ',...' if s.vararg else '')


class OpaqueTy(Ty):
    def key(s): return 'opaque'


PARAM_ATTRS = {
    'noundef', 'nonnull', 'nocapture', 'readonly', 'readnone', 'writeonly', 'noalias', 'returned', 'signext',
    'zeroext', 'inreg', 'nest', 'immarg', 'nofree', 'swiftself', 'noalias', 'inalloca', 'nosync'}
PARAM_ATTRS_ARG = {'align', 'dereferenceable', 'dereferenceable_or_null'}
PARAM_ATTRS_TY = {'sret', 'byval', 'byref', 'preallocated', 'elementtype'}

FN_ATTR_WORDS = {
    'dso_local', 'dso_preemptable', 'local_unnamed_addr', 'unnamed_addr', 'internal', 'private', 'linkonce_odr', 'linkonce',
    'weak_odr', 'weak', 'external', 'hidden', 'protected', 'default', 'available_externally', 'common', 'appending',
    'extern_weak', 'fastcc', 'ccc', 'coldcc', 'tail', 'musttail', 'notail', 'noundef', 'nonnull', 'signext', 'zeroext',
    'noalias', 'thread_local', 'constant', 'global', 'externally_initialized'}


class Parser:
    def __init__(s, toks):
        s.t = toks
        s.i = 0

    def peek(s, k=0):
        return s.t[s.i + k] if s.i + k < len(s.t) else ('eof', '')

    def next(s):
        t = s.peek()
        s.i += 1
        return t

    def accept(s, val):
        if s.peek()[1] == val:
            s.i += 1
            return True
        return False

    def expect(s, val):
        t = s.next()
        if t[1] != val:
            raise SyntaxError('expected %r got %r (ctx %r)' % (val, t, s.t[max(0, s.i - 6):s.i + 4]))

    def at_end(s):
        return s.i >= len(s.t)

    # -- types
    def parse_type(s):
        k, v = s.next()
        if k == 'word':
            if v == 'void': ty = VoidTy()
            elif re.fullmatch(r'i\d+', v): ty = IntTy(int(v[1:]))
            elif v in ('float', 'double', 'x86_fp80', 'half', 'fp128'): ty = FloatTy(v)
            elif v == 'opaque': ty = OpaqueTy()
            elif v in ('metadata', 'label', 'token'): ty = VoidTy()
            elif v == 'ptr': raise SyntaxError('opaque pointers unsupported')
            else: raise SyntaxError('bad type word ' + v)
        elif k == 'local':
            ty = NamedTy(unq(v[1:]))
        elif v == '{':
            ty = StructTy(s.parse_type_list('}'), False)
        elif v == '<':
            if s.peek()[1] == '{':
                s.next()
                fields = s.parse_type_list('}')
                s.expect('>')
                ty = StructTy(fields, True)
            else:
                raise SyntaxError('vector types unsupported')
        elif v == '[':
            n = int(s.next()[1])
            s.expect('x')
            el = s.parse_type()
            s.expect(']')
            ty = ArrTy(n, el)
        else:
            raise SyntaxError('bad type start %r %r' % (k, v))
        while True:
            if s.peek()[1] == '*':
                s.next()
                ty = PtrTy(ty)
            elif s.peek()[1] == '(':
                s.next()
                params = []
                vararg = False
                while not s.accept(')'):
                    if s.peek()[0] == 'dots':
                        s.next()
                        vararg = True
                    else:
                        params.append(s.parse_type())
                        s.skip_param_attrs()
                    s.accept(',')
                ty = FnTy(ty, params, vararg)
            else:
                break
        return ty

    def parse_type_list(s, close):
        out = []
        while not s.accept(close):
            out.append(s.parse_type())
            s.accept(',')
        return out

    def skip_param_attrs(s):
        attrs = {}
        while True:
            k, v = s.peek()
            if k == 'word' and v in PARAM_ATTRS:
                s.next()
            elif k == 'word' and v in PARAM_ATTRS_ARG:
                s.next()
                if s.accept('('):
                    s.next(); s.expect(')')
                else:
                    s.next()
            elif k == 'word' and v in PARAM_ATTRS_TY:
                s.next()
                s.expect('(')
                attrs[v] = s.parse_type()
                s.expect(')')
            else:
                break
        return attrs

    # -- values
    def parse_value(s, ty):
        """returns a Val"""
        k, v = s.next()
        if k == 'local': return ('local', unq(v[1:]), ty)
        if k == 'global': return ('global', unq(v[1:]), ty)
        if k == 'int': return ('int', int(v), ty)
        if k == 'float': return ('float', v, ty)
        if k == 'cstr': return ('cstr', v[2:-1], ty)
        if k == 'word':
            if v == 'true': return ('int', 1, ty)
            if v == 'false': return ('int', 0, ty)
            if v == 'null': return ('null', None, ty)
            if v in ('undef', 'poison'): return ('undef', None, ty)
            if v == 'zeroinitializer': return ('zero', None, ty)
            if v == 'getelementptr':
                s.accept('inbounds')
                s.expect('(')
                bty = s.parse_type(); s.expect(',')
                pty = s.parse_type(); base = s.parse_value(pty)
                idx = []
                while s.accept(','):
                    s.accept('inrange')
                    ity = s.parse_type(); idx.append(s.parse_value(ity))
                s.expect(')')
                return ('cgep', (bty, base, idx), ty)
            if v in ('bitcast', 'ptrtoint', 'inttoptr', 'trunc', 'zext', 'sext', 'addrspacecast'):
                s.expect('(')
                fty = s.parse_type(); val = s.parse_value(fty)
                s.expect('to')
                tty = s.parse_type()
                s.expect(')')
                return ('ccast', (v, val, tty), tty)
            if v in ('add', 'sub', 'mul', 'and', 'or', 'xor', 'shl', 'lshr', 'ashr'):
                while s.peek()[1] in ('nuw', 'nsw', 'exact'): s.next()
                s.expect('(')
                t1 = s.parse_type(); a = s.parse_value(t1); s.expect(',')
                t2 = s.parse_type(); b = s.parse_value(t2); s.expect(')')
                return ('cbin', (v, a, b), t1)
            if v == 'icmp':
                pred = s.next()[1]
                s.expect('(')
                t1 = s.parse_type(); a = s.parse_value(t1); s.expect(',')
                t2 = s.parse_type(); b = s.parse_value(t2); s.expect(')')
                return ('cicmp', (pred, a, b), IntTy(1))
            raise SyntaxError('bad value word ' + v)
        if v == '{' or v == '[' or (v == '<' and s.peek()[1] == '{'):
            packed = False
            if v == '<':
                s.next(); packed = True
            close = ']' if v == '[' else '}'
            elems = []
            while not s.accept(close):
                ety = s.parse_type()
                elems.append(s.parse_value(ety))
                s.accept(',')
            if packed: s.expect('>')
            return ('agg', elems, ty)
        raise SyntaxError('bad value %r %r' % (k, v))

    def parse_typed_value(s):
        ty = s.parse_type()
        s.skip_param_attrs()
        return s.parse_value(ty)


def unq(name):
    if name.startswith('"'):
        name = name[1:-1]
        name = re.sub(r'\\([0-9A-Fa-f]{2})', lambda m: chr(int(m.group(1), 16)), name)
    return name


# ----------------------------------------------------------------------------
# module

class Func:
    def __init__(s):
        s.name = None; s.ret = None; s.params = []; s.vararg = False
        s.blocks = collections.OrderedDict()  # label -> list of instr lines (token lists)
        s.defined = False


class Module:
    def __init__(s):
        s.named = collections.OrderedDict()   # name -> Ty (struct / opaque)
        s.globals = collections.OrderedDict() # name -> (ty, init Val or None, is_const)
        s.funcs = collections.OrderedDict()
        s.ctors = []


def parse_module(text):
    mod = Module()
    lines = text.split('\n')
    i = 0
    n = len(lines)
    while i < n:
        line = lines[i]
        i += 1
        st = line.strip()
        if not st or st.startswith(';') or st.startswith('source_filename') or st.startswith('target ') \
                or st.startswith('attributes ') or st.startswith('!') or st.startswith('$') or st.startswith('module asm'):
            continue
        if st.startswith('%') and ' = type ' in st:
            p = Parser(tokenize(st))
            name = unq(p.next()[1][1:])
            p.expect('='); p.expect('type')
            mod.named[name] = p.parse_type()
            continue
        if st.startswith('@'):
            parse_global(mod, st)
            continue
        if st.startswith('declare'):
            f = parse_fn_header(Parser(tokenize(st)), 'declare')
            mod.funcs.setdefault(f.name, f)
            continue
        if st.startswith('define'):
            f = parse_fn_header(Parser(tokenize(st.rstrip('{').rstrip())), 'define')
            f.defined = True
            cur = None
            first = True
            while True:
                l = lines[i]
                i += 1
                if l.startswith('}'):
                    break
                ls = l.strip()
                if not ls or ls.startswith(';'):
                    continue
                m = re.match(r'^((?:"(?:[^"\\]|\\.)*"|[-\w.$]+)):(\s|$)', l)
                if m:
                    cur = unq(m.group(1))
                    f.blocks[cur] = []
                    continue
                if cur is None:
                    cur = '%entry%'
                    f.blocks[cur] = []
                # switch spans lines
                if ls.startswith('switch') and ls.endswith('['):
                    while not lines[i].strip().startswith(']'):
                        ls += ' ' + lines[i].strip()
                        i += 1
                    ls += ' ]'
                    i += 1
                f.blocks[cur].append(ls)
            mod.funcs[f.name] = f
            continue
        raise SyntaxError('unhandled top-level line: ' + st[:100])
    return mod


def parse_global(mod, st):
    p = Parser(tokenize(st))
    name = unq(p.next()[1][1:])
    p.expect('=')
    is_const = False
    external = False
    while True:
        k, v = p.peek()
        if k == 'word' and v in ('constant', 'global'):
            is_const = v == 'constant'
            p.next()
            break
        if k == 'word' and v in ('external', 'extern_weak'):
            external = True
            p.next(); continue
        if k == 'word' and v == 'thread_local':
            p.next()
            if p.accept('('):
                p.next(); p.expect(')')
            continue
        if k == 'word' and (v in FN_ATTR_WORDS):
            p.next(); continue
        if k == 'word' and v == 'alias':
            raise SyntaxError('alias unsupported: ' + st[:80])
        raise SyntaxError('global attr? %r in %s' % (v, st[:120]))
    ty = p.parse_type()
    init = None
    if not external and p.peek()[0] != 'eof' and p.peek()[1] != ',':
        init = p.parse_value(ty)
    if name == 'llvm.global_ctors':
        for e in init[1]:
            prio, fn, _ = e[1]
            mod.ctors.append((prio[1], fn[1]))
        return
    mod.globals[name] = (ty, init, is_const, external)


def parse_fn_header(p, kw):
    p.expect(kw)
    f = Func()
    while p.peek()[0] == 'word' and p.peek()[1] in FN_ATTR_WORDS:
        p.next()
    p.skip_param_attrs()
    f.ret = p.parse_type()
    # parse_type may have swallowed nothing more; name follows
    k, v = p.next()
    assert k == 'global', (k, v)
    f.name = unq(v[1:])
    p.expect('(')
    idx = 0
    while not p.accept(')'):
        if p.peek()[0] == 'dots':
            p.next(); f.vararg = True
        else:
            ty = p.parse_type()
            attrs = p.skip_param_attrs()
            pname = None
            if p.peek()[0] == 'local':
                pname = unq(p.next()[1][1:])
            else:
                pname = str(idx)
            f.params.append((ty, pname, attrs))
            idx += 1
        p.accept(',')
    return f


# ----------------------------------------------------------------------------
# C emission

class Emitter:
    def __init__(s, mod):
        s.mod = mod
        s.anon = {}        # structural key -> C struct name (literal structs & arrays)
        s.anon_defs = collections.OrderedDict()  # cname -> (kind, ty)
        s.fnptr = {}       # key -> typedef name
        s.fnptr_defs = collections.OrderedDict()
        s.named_c = {}
        s.gname = {}
        for i, nme in enumerate(mod.named):
            s.named_c[nme] = 'struct N%d_%s' % (i, re.sub(r'\W', '_', nme)[:40])

    # ---- names
    def cg(s, name):
        if name not in s.gname:
            c = re.sub(r'[^\w]', '_', name)
            if c != name or c in ('main',):
                c = 'g%d_%s' % (len(s.gname), c)
            s.gname[name] = c
        return s.gname[name]

    # ---- types
    def resolve(s, ty):
        while isinstance(ty, NamedTy):
            ty = s.mod.named[ty.name]
        return ty

    def ct(s, ty):
        if isinstance(ty, IntTy):
            b = ty.bits
            if b == 1: return 'u8'
            if b in (8, 16, 32, 64): return 'u%d' % b
            if b == 128: return 'u128'
            raise NotImplementedError('int width %d' % b)
        if isinstance(ty, VoidTy): return 'void'
        if isinstance(ty, FloatTy):
            return {'float': 'float', 'double': 'double', 'x86_fp80': 'long double'}[ty.name]
        if isinstance(ty, NamedTy):
            return s.named_c[ty.name]
        if isinstance(ty, PtrTy):
            to = ty.to
            if isinstance(to, FnTy):
                return s.fnptr_name(to)
            if isinstance(to, VoidTy):
                return 'void*'
            return s.ct(to) + '*'
        if isinstance(ty, (StructTy, ArrTy)):
            k = ty.key()
            if k not in s.anon:
                nm = 'struct A%d' % len(s.anon)
                s.anon[k] = nm
                s.anon_defs[nm] = ty
            return s.anon[k]
        if isinstance(ty, FnTy):
            raise NotImplementedError('bare fn type')
        if isinstance(ty, OpaqueTy):
            raise NotImplementedError('opaque by value')
        raise NotImplementedError(ty)

    def fnptr_name(s, fty):
        k = fty.key()
        if k not in s.fnptr:
            nm = 'FP%d' % len(s.fnptr)
            s.fnptr[k] = nm
            s.fnptr_defs[nm] = fty
            # force param types to exist
            s.ct(fty.ret) if not isinstance(fty.ret, VoidTy) else None
            for p in fty.params: s.ct(p)
        return s.fnptr[k]

    def sct(s, ty):
        """signed variant of int type"""
        return 's' + s.ct(ty)[1:]

    def layout(s, ty):
        """(size, align) under the x86-64 data layout"""
        ty = s.resolve(ty)
        if isinstance(ty, IntTy):
            b = max(1, (ty.bits + 7) // 8)
            p = 1
            while p < b: p *= 2
            return p, min(p, 16)
        if isinstance(ty, PtrTy): return 8, 8
        if isinstance(ty, FloatTy): return {'float': (4, 4), 'double': (8, 8), 'x86_fp80': (16, 16)}[ty.name]
        if isinstance(ty, ArrTy):
            sz, al = s.layout(ty.el)
            return sz * ty.n, al
        if isinstance(ty, StructTy):
            off = 0; mal = 1
            for f in ty.fields:
                sz, al = s.layout(f)
                if ty.packed: al = 1
                off = (off + al - 1) // al * al
                off += sz
                mal = max(mal, al)
            off = (off + mal - 1) // mal * mal
            return off, mal
        raise NotImplementedError('layout of ' + ty.key())

    def fields_of(s, ty):
        ty = s.resolve(ty)
        if isinstance(ty, StructTy): return ty.fields
        raise TypeError('not a struct: ' + ty.key())

    # ---- constants / values
    def val(s, v, fn=None):
        kind, data, ty = v
        if kind == 'local':
            return fn.lname(data)
        if kind == 'global':
            nm = data
            if nm in s.mod.funcs:
                return '((%s)&%s)' % (s.ct(ty), s.cg(nm))
            return '(&%s)' % s.cg(nm)
        if kind == 'int':
            cty = s.ct(ty)
            bits = ty.bits
            x = data & ((1 << bits) - 1)
            if bits == 128:
                return '((u128)%dULL<<64 | %dULL)' % (x >> 64, x & (2**64 - 1))
            return '((%s)%dU%s)' % (cty, x, 'LL' if bits > 32 else '')
        if kind == 'null':
            return '((%s)0)' % s.ct(ty)
        if kind == 'undef':
            rty = s.resolve(ty)
            if isinstance(rty, (IntTy, PtrTy, FloatTy)):
                return '((%s)0)' % s.ct(ty)
            return '((%s){0})' % s.ct(ty)
        if kind == 'zero':
            rty = s.resolve(ty)
            if isinstance(rty, (IntTy, PtrTy, FloatTy)):
                return '((%s)0)' % s.ct(ty)
            return '((%s){0})' % s.ct(ty)
        if kind == 'float':
            if data.startswith('0x'):
                import struct
                bits = int(data[2:], 16)
                d = struct.unpack('>d', bits.to_bytes(8, 'big'))[0]
                return '((%s)%r)' % (s.ct(ty), d)
            return '((%s)%s)' % (s.ct(ty), data)
        if kind == 'cgep':
            bty, base, idx = data
            return s.gep_expr(bty, s.val(base, fn), idx, fn)
        if kind == 'ccast':
            op, x, tty = data
            return s.cast_expr(op, x, tty, fn)
        if kind == 'cbin':
            op, a, b = data
            return s.bin_expr(op, a, b, ty, fn)
        if kind == 'cicmp':
            pred, a, b = data
            return s.icmp_expr(pred, a, b, fn)
        if kind in ('agg', 'cstr'):
            return '((%s)%s)' % (s.ct(ty), s.init(v))
        raise NotImplementedError(kind)

    def init(s, v):
        """static initializer text (no compound literal prefix)"""
        kind, data, ty = v
        rty = s.resolve(ty)
        if kind == 'zero' or kind == 'undef':
            if isinstance(rty, (IntTy, PtrTy, FloatTy)): return '0'
            return '{0}'
        if kind == 'agg':
            if isinstance(rty, ArrTy):
                return '{{' + ', '.join(s.init(e) for e in data) + '}}'
            return '{' + ', '.join(s.init(e) for e in data) + '}'
        if kind == 'cstr':
            bs = []
            j = 0
            d = data
            while j < len(d):
                if d[j] == '\\':
                    if d[j + 1] == '\\':
                        bs.append(92); j += 2
                    else:
                        bs.append(int(d[j + 1:j + 3], 16)); j += 3
                else:
                    bs.append(ord(d[j])); j += 1
            return '{{' + ','.join(str(b) for b in bs) + '}}'
        return s.val(v)

    def gep_expr(s, bty, base_c, idx, fn):
        # base_c is an expression of type bty*
        first = idx[0]
        e = base_c
        if not (first[0] == 'int' and first[1] == 0):
            e = '(%s + %s)' % (e, s.sidx(first, fn))
        cur = bty
        if len(idx) == 1:
            return e
        e = '(*%s)' % e
        for ix in idx[1:]:
            r = s.resolve(cur)
            if isinstance(r, StructTy):
                assert ix[0] == 'int', 'struct index must be const'
                e = '%s.f%d' % (e, ix[1])
                cur = r.fields[ix[1]]
            elif isinstance(r, ArrTy):
                e = '%s.a[%s]' % (e, s.sidx(ix, fn))
                cur = r.el
            else:
                raise TypeError('gep into ' + r.key())
        return '(&%s)' % e

    def sidx(s, ix, fn):
        if ix[0] == 'int':
            return str(ix[1])
        bits = ix[2].bits
        return '(s%d)%s' % (bits, s.val(ix, fn))

    def cast_expr(s, op, x, tty, fn):
        xs = s.val(x, fn)
        fty = x[2]
        if op in ('bitcast', 'addrspacecast'):
            rf, rt = s.resolve(fty), s.resolve(tty)
            if isinstance(rf, PtrTy) and isinstance(rt, PtrTy):
                return '((%s)%s)' % (s.ct(tty), xs)
            raise NotImplementedError('bitcast %s -> %s' % (fty.key(), tty.key()))
        if op == 'ptrtoint':
            return '((%s)(u64)%s)' % (s.ct(tty), xs)
        if op == 'inttoptr':
            return '((%s)(u64)%s)' % (s.ct(tty), xs)
        if op == 'trunc':
            if tty.bits == 1:
                return '((u8)(%s & 1))' % xs
            return '((%s)%s)' % (s.ct(tty), xs)
        if op == 'zext':
            return '((%s)%s)' % (s.ct(tty), xs)
        if op == 'sext':
            if fty.bits == 1:
                return '((%s)-(%s)(%s & 1))' % (s.ct(tty), s.sct(tty), xs)
            return '((%s)(%s)(%s)%s)' % (s.ct(tty), s.sct(tty), s.sct(fty), xs)
        if op in ('sitofp',):
            return '((%s)(%s)%s)' % (s.ct(tty), s.sct(fty), xs)
        if op in ('uitofp', 'fpext', 'fptrunc'):
            return '((%s)%s)' % (s.ct(tty), xs)
        if op == 'fptoui':
            return '((%s)%s)' % (s.ct(tty), xs)
        if op == 'fptosi':
            return '((%s)(%s)%s)' % (s.ct(tty), s.sct(tty), xs)
        raise NotImplementedError(op)

    def bin_expr(s, op, a, b, ty, fn):
        A, B = s.val(a, fn), s.val(b, fn)
        rty = s.resolve(ty)
        if isinstance(rty, FloatTy):
            o = {'fadd': '+', 'fsub': '-', 'fmul': '*', 'fdiv': '/'}[op]
            return '(%s %s %s)' % (A, o, B)
        T = s.ct(ty)
        S = s.sct(ty)
        one = ty.bits == 1
        if op in ('add', 'sub', 'mul', 'and', 'or', 'xor'):
            o = {'add': '+', 'sub': '-', 'mul': '*', 'and': '&', 'or': '|', 'xor': '^'}[op]
            e = '((%s)(%s %s %s))' % (T, A, o, B)
            if one: e = '((u8)(%s & 1))' % e
            return e
        if op == 'shl': return '((%s)(%s << %s))' % (T, A, B)
        if op == 'lshr': return '((%s)(%s >> %s))' % (T, A, B)
        if op == 'ashr': return '((%s)((%s)%s >> %s))' % (T, S, A, B)
        if op == 'udiv': return '((%s)(%s / %s))' % (T, A, B)
        if op == 'urem': return '((%s)(%s %% %s))' % (T, A, B)
        if op == 'sdiv': return '((%s)((%s)%s / (%s)%s))' % (T, S, A, S, B)
        if op == 'srem': return '((%s)((%s)%s %% (%s)%s))' % (T, S, A, S, B)
        raise NotImplementedError(op)

    def icmp_expr(s, pred, a, b, fn):
        A, B = s.val(a, fn), s.val(b, fn)
        rty = s.resolve(a[2])
        ops = {'eq': '==', 'ne': '!=', 'ult': '<', 'ule': '<=', 'ugt': '>', 'uge': '>=',
               'slt': '<', 'sle': '<=', 'sgt': '>', 'sge': '>='}
        o = ops[pred]
        if isinstance(rty, PtrTy):
            if pred in ('eq', 'ne'):
                return '((u8)((void*)%s %s (void*)%s))' % (A, o, B)
            return '((u8)((u64)%s %s (u64)%s))' % (A, o, B)
        if pred[0] == 's':
            S = s.sct(a[2])
            if a[2].bits == 1: raise NotImplementedError('signed i1 cmp')
            return '((u8)((%s)%s %s (%s)%s))' % (S, A, o, S, B)
        return '((u8)(%s %s %s))' % (A, o, B)


class FnEmitter:
    def __init__(s, em, f):
        s.em = em; s.f = f
        s.lnames = {}
        s.decls = collections.OrderedDict()
        s.out = []
        s.phis = {}  # block -> list of (dest, ty, [(val, pred)])
        s.bitcast_src = {}
        s.ptrtoint_src = {}
        s.gep_def = {}
        s.tmpn = 0

    def lname(s, name):
        if name not in s.lnames:
            c = 'v_' + re.sub(r'\W', '_', name)
            if c in s.lnames.values():
                c = '%s_%d' % (c, len(s.lnames))
            s.lnames[name] = c
        return s.lnames[name]

    def label(s, name):
        return 'L_' + re.sub(r'\W', '_', name) + '_%d' % s.blockidx[name]

    def declare(s, name, ty):
        c = s.lname(name)
        s.decls[c] = s.em.ct(ty)
        return c

    def emit(s):
        em = s.em
        f = s.f
        s.blockidx = {b: i for i, b in enumerate(f.blocks)}
        if '%entry%' in f.blocks:
            # implicit entry label number = number of params (unnamed numbering)
            pass
        # pass 1: parse instructions
        parsed = collections.OrderedDict()
        for b, lines in f.blocks.items():
            ins = []
            for l in lines:
                ins.append(s.parse_instr(l))
            parsed[b] = ins
        # phi table
        for b, ins in parsed.items():
            for i in ins:
                if i[0] == 'phi':
                    s.phis.setdefault(b, []).append(i)
        # emit blocks in reverse post-order so that the only backward gotos are
        # natural-loop back edges (CBMC identifies loops by backward gotos)
        succ = {}
        for b, ins in parsed.items():
            t = ins[-1]
            if t[0] == 'br': succ[b] = [t[1]]
            elif t[0] == 'condbr': succ[b] = [t[2], t[3]]
            elif t[0] == 'switch': succ[b] = [t[2]] + [l for _, l in t[3]]
            else: succ[b] = []
        entry = next(iter(parsed))
        # distance from each block back to a given block (BFS over the CFG); used to lay loops out contiguously:
        # among the successors of b, the one with the shortest way back to b (the innermost loop body) is placed
        # right after b, successors that leave the cycle are placed last
        names = list(parsed)
        def dist_to(target):
            # reverse BFS from target
            pred = {}
            for b, ss in succ.items():
                for c in ss: pred.setdefault(c, []).append(b)
            d = {target: 0}; q = [target]
            while q:
                x = q.pop(0)
                for p_ in pred.get(x, []):
                    if p_ not in d:
                        d[p_] = d[x] + 1; q.append(p_)
            return d
        dcache = {}
        def visit_order(b):
            ss = succ[b]
            if len(ss) < 2 or os.environ.get('LL2C_OLD_LAYOUT'): return list(reversed(ss))
            if b not in dcache: dcache[b] = dist_to(b)
            d = dcache[b]
            INF = 10 ** 9
            # visited first = placed last: decreasing distance back to b (exits first), stable for ties
            return sorted(reversed(ss), key=lambda c: -d.get(c, INF))
        seen = set(); post = []
        stack = [(entry, iter(visit_order(entry)))]
        seen.add(entry)
        while stack:
            b, it = stack[-1]
            nxt = None
            for c in it:
                if c not in seen:
                    nxt = c; break
            if nxt is None:
                post.append(b); stack.pop()
            else:
                seen.add(nxt); stack.append((nxt, iter(visit_order(nxt))))
        order = list(reversed(post))
        parsed = collections.OrderedDict((b, parsed[b]) for b in order)  # unreachable blocks dropped
        body = []
        for b, ins in parsed.items():
            body.append('%s: ;' % s.label(b))
            for i in ins:
                s.cur = b
                body.extend(s.gen(i))
        params = ', '.join('%s %s' % (em.ct(t), s.lname(n)) for t, n, a in f.params)
        if f.vararg: params += ', ...'
        hdr = '%s %s(%s)' % (em.ct(f.ret), em.cg(f.name), params or 'void')
        out = [hdr + ' {']
        for c, t in s.decls.items():
            out.append('  %s %s;' % (t, c))
        out.extend('  ' + l for l in body)
        out.append('}')
        return '\n'.join(out)

    # ---------------- instruction parsing -> tuples
    def parse_instr(s, line):
        if '@llvm.experimental.noalias.scope.decl' in line or '@llvm.dbg.' in line:
            return ('nop',)
        # strip metadata suffixes
        line = re.sub(r',\s*!\w+\s*!\d+', '', line)
        line = re.sub(r',\s*!\w+\s*!\{[^}]*\}', '', line)
        toks = tokenize(line)
        toks = [t for t in toks if t[0] not in ('attr',)]
        p = Parser(toks)
        dest = None
        if p.peek()[0] == 'local' and p.peek(1)[1] == '=':
            dest = unq(p.next()[1][1:])
            p.next()
        while p.peek()[1] in ('tail', 'musttail', 'notail'):
            p.next()
        op = p.next()[1]
        P = p
        if op in ('add', 'sub', 'mul', 'udiv', 'sdiv', 'urem', 'srem', 'shl', 'lshr', 'ashr', 'and', 'or', 'xor',
                  'fadd', 'fsub', 'fmul', 'fdiv'):
            while P.peek()[1] in ('nuw', 'nsw', 'exact', 'fast', 'nnan', 'ninf', 'nsz', 'arcp', 'contract', 'afn', 'reassoc'):
                P.next()
            ty = P.parse_type(); a = P.parse_value(ty); P.expect(','); b = P.parse_value(ty)
            return ('bin', dest, op, a, b, ty)
        if op == 'icmp':
            pred = P.next()[1]
            ty = P.parse_type(); a = P.parse_value(ty); P.expect(','); b = P.parse_value(ty)
            return ('icmp', dest, pred, a, b)
        if op == 'fcmp':
            while P.peek()[1] in ('fast', 'nnan', 'ninf', 'nsz', 'arcp', 'contract', 'afn', 'reassoc'): P.next()
            pred = P.next()[1]
            ty = P.parse_type(); a = P.parse_value(ty); P.expect(','); b = P.parse_value(ty)
            return ('fcmp', dest, pred, a, b)
        if op in ('bitcast', 'ptrtoint', 'inttoptr', 'trunc', 'zext', 'sext', 'sitofp', 'uitofp', 'fptoui', 'fptosi',
                  'fpext', 'fptrunc', 'addrspacecast'):
            ty = P.parse_type(); a = P.parse_value(ty); P.expect('to'); tty = P.parse_type()
            return ('cast', dest, op, a, tty)
        if op == 'load':
            P.accept('atomic'); P.accept('volatile')
            ty = P.parse_type(); P.expect(','); pty = P.parse_type(); ptr = P.parse_value(pty)
            return ('load', dest, ty, ptr)
        if op == 'store':
            P.accept('atomic'); P.accept('volatile')
            ty = P.parse_type(); v = P.parse_value(ty); P.expect(','); pty = P.parse_type(); ptr = P.parse_value(pty)
            return ('store', v, ptr)
        if op == 'getelementptr':
            P.accept('inbounds')
            bty = P.parse_type(); P.expect(',')
            pty = P.parse_type(); base = P.parse_value(pty)
            idx = []
            while P.accept(','):
                if P.peek()[0] == 'meta': break
                ity = P.parse_type(); idx.append(P.parse_value(ity))
            return ('gep', dest, bty, base, idx)
        if op == 'alloca':
            ty = P.parse_type()
            cnt = None
            if P.accept(','):
                if P.peek()[1] != 'align':
                    cty = P.parse_type(); cnt = P.parse_value(cty)
            return ('alloca', dest, ty, cnt)
        if op == 'br':
            if P.peek()[1] == 'label':
                P.next(); return ('br', unq(P.next()[1][1:]))
            ty = P.parse_type(); c = P.parse_value(ty); P.expect(',')
            P.expect('label'); t = unq(P.next()[1][1:]); P.expect(',')
            P.expect('label'); e = unq(P.next()[1][1:])
            return ('condbr', c, t, e)
        if op == 'switch':
            ty = P.parse_type(); v = P.parse_value(ty); P.expect(',')
            P.expect('label'); d = unq(P.next()[1][1:])
            P.expect('[')
            cases = []
            while not P.accept(']'):
                cty = P.parse_type(); cv = P.parse_value(cty); P.expect(',')
                P.expect('label'); cases.append((cv, unq(P.next()[1][1:])))
            return ('switch', v, d, cases)
        if op == 'ret':
            ty = P.parse_type()
            if isinstance(ty, VoidTy): return ('ret', None)
            return ('ret', P.parse_value(ty))
        if op == 'unreachable':
            return ('unreachable',)
        if op == 'phi':
            ty = P.parse_type()
            inc = []
            while True:
                P.expect('[')
                v = P.parse_value(ty); P.expect(',')
                b = unq(P.next()[1][1:]); P.expect(']')
                inc.append((v, b))
                if not P.accept(','): break
            return ('phi', dest, ty, inc)
        if op == 'select':
            cty = P.parse_type(); c = P.parse_value(cty); P.expect(',')
            t1 = P.parse_type(); a = P.parse_value(t1); P.expect(',')
            t2 = P.parse_type(); b = P.parse_value(t2)
            return ('select', dest, c, a, b, t1)
        if op == 'extractvalue':
            ty = P.parse_type(); v = P.parse_value(ty)
            idx = []
            while P.accept(','): idx.append(int(P.next()[1]))
            return ('extractvalue', dest, v, idx)
        if op == 'insertvalue':
            ty = P.parse_type(); v = P.parse_value(ty); P.expect(',')
            ety = P.parse_type(); e = P.parse_value(ety)
            idx = []
            while P.accept(','): idx.append(int(P.next()[1]))
            return ('insertvalue', dest, v, e, idx)
        if op in ('call', 'invoke'):
            while P.peek()[0] == 'word' and P.peek()[1] in FN_ATTR_WORDS | {'fast', 'nnan', 'ninf', 'nsz'}:
                P.next()
            P.skip_param_attrs()
            rty = P.parse_type()
            # rty may be a full function type (for varargs): then ret = rty.ret
            fnty = None
            if isinstance(rty, PtrTy) and isinstance(rty.to, FnTy) and P.peek()[0] in ('global', 'local') and P.peek(1)[1] == '(':
                # ambiguous: "call void (i8*, ...)* @f(" prints as fn type then '*'?? LLVM prints "void (i8*, ...) @f"
                pass
            if isinstance(rty, FnTy):
                fnty = rty
                rty = fnty.ret
            callee = P.next()
            P.expect('(')
            args = []
            while not P.accept(')'):
                aty = P.parse_type()
                attrs = P.skip_param_attrs()
                args.append((P.parse_value(aty), attrs))
                P.accept(',')
            return ('call', dest, rty, callee, args, fnty)
        if op == 'freeze':
            ty = P.parse_type(); v = P.parse_value(ty)
            return ('copy', dest, v, ty)
        if op == 'fneg':
            ty = P.parse_type(); v = P.parse_value(ty)
            return ('fneg', dest, v, ty)
        raise NotImplementedError('instr ' + op + ' :: ' + line[:100])

    # ---------------- code generation
    def edge(s, to):
        """code for transferring control from s.cur to block `to` (phi copies + goto)"""
        out = []
        ph = s.phis.get(to, [])
        if ph:
            tmps = []
            for (_, dest, ty, inc) in ph:
                vals = [v for v, b in inc if b == s.cur]
                if not vals:
                    raise KeyError('phi %s has no incoming for %s' % (dest, s.cur))
                t = 'phi_t%d' % s.tmpn; s.tmpn += 1
                s.decls[t] = s.em.ct(ty)
                out.append('%s = %s;' % (t, s.em.val(vals[0], s)))
                tmps.append((s.declare(dest, ty), t))
            for d, t in tmps:
                out.append('%s = %s;' % (d, t))
        out.append('goto %s;' % s.label(to))
        return ' '.join(out)

    def gen(s, i):
        em = s.em
        V = lambda v: em.val(v, s)
        k = i[0]
        if k == 'nop':
            return []
        if k == 'phi':
            s.declare(i[1], i[2])
            return []
        if k == 'bin':
            _, d, op, a, b, ty = i
            if op == 'sub' and a[0] == 'local' and b[0] == 'local' and a[1] in s.ptrtoint_src and b[1] in s.ptrtoint_src:
                # pointer difference spelled as integer subtraction of two ptrtoint casts: keep it a pointer
                # subtraction so that CBMC can fold it (same object: difference of offsets)
                pa, pb = s.ptrtoint_src[a[1]], s.ptrtoint_src[b[1]]
                return ['%s = (%s)((const char*)%s - (const char*)%s);' % (s.declare(d, ty), em.ct(ty), V(pa), V(pb))]
            if UF_MUL and op == 'mul' and isinstance(ty, IntTy) and ty.bits == 64 and a[0] != 'int' and b[0] != 'int':
                # sound abstraction for proofs: 64x64 multiplication as an uninterpreted function
                return ['%s = ll2c_uf_mul64(%s, %s);' % (s.declare(d, ty), V(a), V(b))]
            return ['%s = %s;' % (s.declare(d, ty), em.bin_expr(op, a, b, ty, s))]
        if k == 'icmp':
            _, d, pred, a, b = i
            return ['%s = %s;' % (s.declare(d, IntTy(1)), em.icmp_expr(pred, a, b, s))]
        if k == 'fcmp':
            _, d, pred, a, b = i
            ops = {'oeq': '==', 'one': '!=', 'olt': '<', 'ole': '<=', 'ogt': '>', 'oge': '>=',
                   'ueq': '==', 'une': '!=', 'ult': '<', 'ule': '<=', 'ugt': '>', 'uge': '>='}
            return ['%s = (u8)(%s %s %s);' % (s.declare(d, IntTy(1)), V(a), ops[pred], V(b))]
        if k == 'cast':
            _, d, op, a, tty = i
            if op == 'bitcast':
                s.bitcast_src[d] = a
            if op == 'ptrtoint':
                s.ptrtoint_src[d] = a
            return ['%s = %s;' % (s.declare(d, tty), em.cast_expr(op, a, tty, s))]
        if k == 'copy':
            _, d, v, ty = i
            return ['%s = %s;' % (s.declare(d, ty), V(v))]
        if k == 'load':
            _, d, ty, ptr = i
            e = '*%s' % s.addr(ptr)
            if isinstance(ty, IntTy) and ty.bits == 1: e = '((%s) & 1)' % e
            return ['%s = %s;' % (s.declare(d, ty), e)]
        if k == 'store':
            _, v, ptr = i
            return ['*%s = %s;' % (s.addr(ptr), V(v))]
        if k == 'gep':
            _, d, bty, base, idx = i
            # result type: compute
            rty = s.gep_type(bty, idx)
            s.gep_def[d] = (bty, base, idx)
            return ['%s = %s;' % (s.declare(d, PtrTy(rty)), em.gep_expr(bty, V(base), idx, s))]
        if k == 'alloca':
            _, d, ty, cnt = i
            c = s.declare(d, PtrTy(ty))
            if cnt is not None and not (cnt[0] == 'int' and cnt[1] == 1):
                if cnt[0] == 'int':
                    sto = c + '_sto'
                    s.decls[sto + '[%d]' % cnt[1]] = em.ct(ty)
                    return ['%s = &%s[0];' % (c, sto)]
                return ['%s = (%s*)malloc(sizeof(%s) * %s); __CPROVER_assume(%s != 0);' % (c, em.ct(ty), em.ct(ty), V(cnt), c)]
            sto = c + '_sto'
            s.decls[sto] = em.ct(ty)
            return ['%s = &%s;' % (c, sto)]
        if k == 'br':
            return [s.edge(i[1])]
        if k == 'condbr':
            _, c, t, e = i
            return ['if (%s) { %s } else { %s }' % (V(c), s.edge(t), s.edge(e))]
        if k == 'switch':
            _, v, d, cases = i
            out = ['switch (%s) {' % V(v)]
            for cv, lab in cases:
                out.append('  case %s: { %s }' % (V(cv), s.edge(lab)))
            out.append('  default: { %s }' % s.edge(d))
            out.append('}')
            return out
        if k == 'ret':
            if i[1] is None: return ['return;']
            return ['return %s;' % V(i[1])]
        if k == 'unreachable':
            return ['ll2c_unreachable();']
        if k == 'select':
            _, d, c, a, b, ty = i
            return ['%s = %s ? %s : %s;' % (s.declare(d, ty), V(c), V(a), V(b))]
        if k == 'extractvalue':
            _, d, v, idx = i
            e, ty = s.agg_path(V(v), v[2], idx)
            return ['%s = %s;' % (s.declare(d, ty), e)]
        if k == 'insertvalue':
            _, d, v, e, idx = i
            c = s.declare(d, v[2])
            path, _ = s.agg_path(c, v[2], idx)
            return ['%s = %s; %s = %s;' % (c, V(v), path, V(e))]
        if k == 'fneg':
            _, d, v, ty = i
            return ['%s = -%s;' % (s.declare(d, ty), V(v))]
        if k == 'call':
            return s.gen_call(i)
        raise NotImplementedError(k)

    def addr(s, v, depth=0):
        """address operand of a load/store: a GEP-defined local is substituted by its
        typed access path (recursively), so that CBMC sees `*&x.f.a[i]` = a typed member /
        index expression instead of dereferencing a pointer temporary with a symbolic
        offset (which it can only model with byte_extract / byte_update)."""
        if v[0] == 'local' and v[1] in s.gep_def and depth < 6:
            bty, base, idx = s.gep_def[v[1]]
            return s.em.gep_expr(bty, s.addr(base, depth + 1), idx, s)
        return s.em.val(v, s)

    def agg_path(s, e, ty, idx):
        for ix in idx:
            r = s.em.resolve(ty)
            if isinstance(r, StructTy):
                e = '%s.f%d' % (e, ix); ty = r.fields[ix]
            elif isinstance(r, ArrTy):
                e = '%s.a[%d]' % (e, ix); ty = r.el
            else:
                raise TypeError
        return e, ty

    def gep_type(s, bty, idx):
        cur = bty
        for ix in idx[1:]:
            r = s.em.resolve(cur)
            if isinstance(r, StructTy): cur = r.fields[ix[1]]
            elif isinstance(r, ArrTy): cur = r.el
            else: raise TypeError('gep into ' + r.key())
        return cur

    def gen_call(s, i):
        em = s.em
        _, d, rty, callee, args, fnty = i
        V = lambda v: em.val(v, s)
        ck, cv = callee
        A = [V(a) for a, _ in args]
        if ck == 'global':
            name = unq(cv[1:])
            r = s.intrinsic(name, d, rty, args, A)
            if r is not None:
                return r
            if name in ('malloc', '_Znwm') and d is not None and args and args[0][0][0] == 'int':
                # heap object of constant size whose result is cast to T* with sizeof(T) == size: typed allocation,
                # so that CBMC creates a T object instead of a byte array
                ety = None
                for bl in s.f.blocks.values():
                    for l in bl:
                        m = re.match(r'\s*%\S+ = bitcast i8\* %' + re.escape(d) + r' to (.*?)(?:, !.*)?$', l)
                        if m and ety is None:
                            try:
                                t = Parser(tokenize(m.group(1))).parse_type()
                                if isinstance(t, PtrTy) and em.layout(t.to)[0] == args[0][0][1]:
                                    ety = t
                            except Exception:
                                pass
                if ety is not None:
                    c = s.declare(d, rty)
                    return ['%s = (u8*)malloc(sizeof(%s));' % (c, em.ct(ety.to))]
            if name == 'vmodel_alloc':
                # typed allocation: element type from the (first) bitcast of the result
                hint = s.orig_ptr(args[2][0])
                ety = hint[2].to if isinstance(hint[2], PtrTy) else None
                c = s.declare(d, rty)
                if ety is not None and isinstance(ety, PtrTy) and em.layout(ety.to)[0] == args[1][0][1]:
                    return ['%s = (u8*)malloc(sizeof(%s) * %s); __CPROVER_assume(%s != 0);' % (c, em.ct(ety.to), A[0], c)]
                raise NotImplementedError('vmodel_alloc without typed use')
            if name == 'verif_assert':
                idv = args[1][0]
                if idv[0] != 'int':
                    raise NotImplementedError('verif_assert with non-constant id')
                return ['__CPROVER_assert(%s, "verif_assert %d");' % (A[0], idv[1])]
            fe = em.cg(name)
            if name not in em.mod.funcs:
                raise KeyError('call to unknown function ' + name)
            callee_f = em.mod.funcs[name]
            # cast args to declared param types when they differ (bitcast-free calls are typed already)
        else:
            # indirect
            pty = PtrTy(fnty if fnty else FnTy(rty, [a[0][2] for a in args], False))
            fe = '((%s)%s)' % (em.ct(pty), s.lname(unq(cv[1:])))
        call = '%s(%s)' % (fe, ', '.join(A))
        if ck == 'global' and unq(cv[1:]) in LIBC and d is not None and not isinstance(rty, VoidTy):
            call = '(%s)%s' % (em.ct(rty), call)
        if d is None or isinstance(rty, VoidTy):
            return [call + ';']
        return ['%s = %s;' % (s.declare(d, rty), call)]

    def orig_ptr(s, v):
        """strip bitcasts: return a value whose type is the original typed pointer"""
        seen = 0
        while True:
            if v[0] == 'local' and v[1] in s.bitcast_src:
                v = s.bitcast_src[v[1]]
            elif v[0] == 'ccast' and v[1][0] == 'bitcast':
                v = v[1][1]
            else:
                return v
            seen += 1
            if seen > 8: return v

    def typed_copy(s, args):
        em = s.em
        n = args[2][0]
        d, sr = s.orig_ptr(args[0][0]), s.orig_ptr(args[1][0])
        if n[0] != 'int':
            dt, st = em.resolve(d[2]), em.resolve(sr[2])
            if isinstance(dt, PtrTy) and isinstance(st, PtrTy):
                a, b = em.resolve(dt.to), em.resolve(st.to)
                if (isinstance(a, (IntTy, PtrTy)) and em.layout(a)[0] == 8) or (isinstance(b, (IntTy, PtrTy)) and em.layout(b)[0] == 8):
                    return ['ll2c_move64((u64*)%s, (const u64*)%s, %s);' % (em.val(d, s), em.val(sr, s), em.val(n, s))]
            return None
        dt, st = em.resolve(d[2]), em.resolve(sr[2])
        if not (isinstance(dt, PtrTy) and isinstance(st, PtrTy)): return None
        if isinstance(dt.to, (VoidTy, FnTy, OpaqueTy)) or isinstance(st.to, (VoidTy, FnTy, OpaqueTy)): return None
        try:
            if em.layout(dt.to)[0] == n[1] and em.ct(dt.to) == em.ct(st.to):
                return ['*%s = *%s;' % (em.val(d, s), em.val(sr, s))]
            if em.layout(dt.to)[0] == n[1]:
                return ['*%s = *(%s*)%s;' % (em.val(d, s), em.ct(dt.to), em.val(sr, s))]
            if em.layout(st.to)[0] == n[1]:
                return ['*(%s*)%s = *%s;' % (em.ct(st.to), em.val(d, s), em.val(sr, s))]
        except NotImplementedError:
            return None
        r = s.field_run(d, sr, n[1])
        if r: return r
        # leading run of fields of the pointee struct (same type both sides)
        to = em.resolve(dt.to)
        if isinstance(to, StructTy) and em.ct(dt.to) == em.ct(st.to) and n[1] < em.layout(dt.to)[0]:
            out = []; off = 0
            for fi, f in enumerate(to.fields):
                fsz, fal = em.layout(f)
                if to.packed: fal = 1
                off = (off + fal - 1) // fal * fal
                if off >= n[1]: break
                if off + fsz > n[1]: return None
                out.append('(*%s).f%d = (*%s).f%d;' % (em.val(d, s), fi, em.val(sr, s), fi))
                off += fsz
            return out or None
        return None

    def field_run(s, d, sr, nbytes, zero=False):
        """copy/zero of a run of consecutive struct fields starting at a field GEP"""
        em = s.em
        def info(v):
            if v[0] == 'local' and v[1] in s.gep_def:
                bty, base, idx = s.gep_def[v[1]]
            elif v[0] == 'cgep':
                bty, base, idx = v[1]
            else:
                return None
            if len(idx) < 2 or idx[-1][0] != 'int': return None
            parent = s.gep_type(bty, idx[:-1]) if len(idx) > 2 else bty
            pr = em.resolve(parent)
            if not isinstance(pr, StructTy): return None
            pexpr = em.gep_expr(bty, em.val(base, s), idx[:-1], s) if len(idx) > 2 else \
                ('(%s + %s)' % (em.val(base, s), em.sidx(idx[0], s)) if not (idx[0][0] == 'int' and idx[0][1] == 0) else em.val(base, s))
            return parent, pr, idx[-1][1], pexpr
        di = info(d)
        if di is None: return None
        if not zero:
            si = info(sr)
            if si is None or em.ct(si[0]) != em.ct(di[0]) or si[2] != di[2]: return None
        parent, pr, k, dexpr = di
        # offsets
        off = 0; offs = []
        for f in pr.fields:
            fsz, fal = em.layout(f)
            if pr.packed: fal = 1
            off = (off + fal - 1) // fal * fal
            offs.append((off, fsz)); off += fsz
        start = offs[k][0]
        out = []
        j = k
        while j < len(pr.fields) and offs[j][0] < start + nbytes:
            if offs[j][0] + offs[j][1] > start + nbytes: return None
            if zero:
                rf = em.resolve(pr.fields[j])
                out.append('(*%s).f%d = %s;' % (dexpr, j, '0' if isinstance(rf, (IntTy, PtrTy, FloatTy)) else '(%s){0}' % em.ct(pr.fields[j])))
            else:
                out.append('(*%s).f%d = (*%s).f%d;' % (dexpr, j, si[3], j))
            j += 1
        return out or None

    def typed_zero(s, args):
        em = s.em
        v, n = args[1][0], args[2][0]
        if n[0] != 'int' or v[0] != 'int' or v[1] != 0: return None
        d = s.orig_ptr(args[0][0])
        dt = em.resolve(d[2])
        if not isinstance(dt, PtrTy) or isinstance(dt.to, (VoidTy, FnTy, OpaqueTy)): return None
        try:
            sz = em.layout(dt.to)[0]
        except NotImplementedError:
            return None
        to = em.resolve(dt.to)
        if sz == n[1]:
            if isinstance(to, (IntTy, PtrTy)):
                return ['*%s = 0;' % em.val(d, s)]
            return ['*%s = (%s){0};' % (em.val(d, s), em.ct(dt.to))]
        # zeroing a leading run of fields of a struct
        if isinstance(to, StructTy) and n[1] < sz and not to.packed:
            out = []; off = 0
            for fi, f in enumerate(to.fields):
                fsz, fal = em.layout(f)
                off = (off + fal - 1) // fal * fal
                if off >= n[1]: break
                if off + fsz > n[1]: return None
                rf = em.resolve(f)
                lhs = '(*%s).f%d' % (em.val(d, s), fi)
                out.append('%s = %s;' % (lhs, '0' if isinstance(rf, (IntTy, PtrTy, FloatTy)) else '(%s){0}' % em.ct(f)))
                off += fsz
            return out
        return s.field_run(d, None, n[1], zero=True)

    def intrinsic(s, name, d, rty, args, A):
        em = s.em
        if not name.startswith('llvm.'):
            return None
        if name.startswith('llvm.lifetime.') or name.startswith('llvm.experimental.noalias') \
                or name.startswith('llvm.dbg.') or name.startswith('llvm.invariant.'):
            return []
        if name.startswith('llvm.memcpy.') or name.startswith('llvm.memmove.'):
            t = s.typed_copy(args)
            if t: return t
            fn = 'memcpy' if 'memcpy' in name else 'memmove'
            return ['%s(%s, %s, %s);' % (fn, A[0], A[1], A[2])]
        if name.startswith('llvm.memset.'):
            t = s.typed_zero(args)
            if t: return t
            return ['memset(%s, %s, %s);' % (A[0], A[1], A[2])]
        if name == 'llvm.assume':
            return ['__CPROVER_assume(%s);' % A[0]]
        if name.startswith('llvm.umax.'):
            return ['%s = %s > %s ? %s : %s;' % (s.declare(d, rty), A[0], A[1], A[0], A[1])]
        if name.startswith('llvm.umin.'):
            return ['%s = %s < %s ? %s : %s;' % (s.declare(d, rty), A[0], A[1], A[0], A[1])]
        if name.startswith('llvm.smax.') or name.startswith('llvm.smin.'):
            S = em.sct(rty)
            o = '>' if 'smax' in name else '<'
            return ['%s = (%s)%s %s (%s)%s ? %s : %s;' % (s.declare(d, rty), S, A[0], o, S, A[1], A[0], A[1])]
        if name.startswith('llvm.ctlz.'):
            return ['%s = ll2c_ctlz%d(%s);' % (s.declare(d, rty), rty.bits, A[0])]
        if name.startswith('llvm.cttz.'):
            return ['%s = ll2c_cttz%d(%s);' % (s.declare(d, rty), rty.bits, A[0])]
        if name.startswith('llvm.ctpop.'):
            return ['%s = ll2c_ctpop%d(%s);' % (s.declare(d, rty), rty.bits, A[0])]
        if name.startswith('llvm.abs.'):
            S = em.sct(rty)
            return ['%s = (%s)%s < 0 ? (%s)(-%s) : %s;' % (s.declare(d, rty), S, A[0], em.ct(rty), A[0], A[0])]
        m = re.match(r'llvm\.(u|s)(mul|add|sub)\.with\.overflow\.i(\d+)', name)
        if m:
            c = s.declare(d, rty)
            sign, op, bits = m.group(1), m.group(2), int(m.group(3))
            if sign == 'u' and bits == 64:
                o = {'mul': '*', 'add': '+', 'sub': '-'}[op]
                return ['%s.f0 = (u64)(%s %s %s); %s.f1 = (u8)((u128)%s %s (u128)%s != (u128)%s.f0);' % (c, A[0], o, A[1], c, A[0], o, A[1], c)] \
                    if op != 'sub' else ['%s.f0 = (u64)(%s - %s); %s.f1 = (u8)(%s < %s);' % (c, A[0], A[1], c, A[0], A[1])]
            raise NotImplementedError(name)
        if name.startswith('llvm.trap'):
            return ['abort();']
        if name.startswith('llvm.expect.'):
            return ['%s = %s;' % (s.declare(d, rty), A[0])]
        if name.startswith('llvm.stacksave'):
            return ['%s = 0;' % s.declare(d, rty)]
        if name.startswith('llvm.stackrestore'):
            return []
        raise NotImplementedError('intrinsic ' + name)


RUNTIME_NAMES = {'vmodel_alloc', 'verif_assert', '__cxa_guard_acquire', '__cxa_guard_release', '__cxa_atexit', 'nondet_u64', 'nondet_u32', 'nondet_range', 'verif_out', 'verif_end_path'}
import os
UF_MUL = bool(os.environ.get('LL2C_UF_MUL'))
LIBC = {'malloc', 'free', 'abort', 'memcpy', 'memmove', 'memset', 'strlen', 'memcmp', 'calloc', 'realloc', 'exit'}

PRELUDE = r'''
#include <stdint.h>
#include <string.h>
#include <stdlib.h>
typedef uint8_t u8; typedef uint16_t u16; typedef uint32_t u32; typedef uint64_t u64;
typedef int8_t s8; typedef int16_t s16; typedef int32_t s32; typedef int64_t s64;
typedef unsigned __int128 u128; typedef __int128 s128;
#ifndef __CPROVER__
void ll2c_assume_fail(void);
void ll2c_native_assert(int, const char*);
void ll2c_native_check(int, const char*);
#define __CPROVER_assume(c) do { if (!(c)) ll2c_assume_fail(); } while (0)
#define __CPROVER_assert(c, m) ll2c_native_assert(!!(c), m)
#define LL2C_CHECK(c, m) ll2c_native_check(!!(c), m)
unsigned long nondet_u64(void); unsigned nondet_u32(void); unsigned long nondet_range(unsigned long, unsigned long);
void verif_out(unsigned long); void verif_end_path(void);
static inline void ll2c_move64(u64* d, const u64* s, u64 nbytes) { u64 n = nbytes >> 3; if ((u64)d <= (u64)s) { for (u64 i = 0; i < n; ++i) d[i] = s[i]; } else { for (u64 i = n; i-- > 0;) d[i] = s[i]; } }
#else
#define LL2C_CHECK(c, m) __CPROVER_assert(c, m)
#ifndef LL2C_MAXIN
#define LL2C_MAXIN 256
#endif
u64 ll2c_in[LL2C_MAXIN]; u32 ll2c_nin;
u64 nondet_ll2c_u64(void);
static inline void ll2c_rec(u64 v) { if (ll2c_nin < LL2C_MAXIN) ll2c_in[ll2c_nin] = v; ll2c_nin++; }
unsigned long nondet_u64(void) { u64 v = nondet_ll2c_u64(); ll2c_rec(v); return v; }
unsigned nondet_u32(void) { u64 v = nondet_ll2c_u64(); __CPROVER_assume(v <= 0xffffffffULL); ll2c_rec(v); return (unsigned)v; }
unsigned long nondet_range(unsigned long lo, unsigned long hi) { u64 v = nondet_ll2c_u64(); __CPROVER_assume(v >= lo && v <= hi); ll2c_rec(v); return v; }
void verif_out(unsigned long v) { (void)v; }
void verif_end_path(void) { __CPROVER_assume(0); }
static inline void ll2c_move64(u64* d, const u64* s, u64 nbytes) { u64 n = nbytes >> 3; if (!__CPROVER_same_object(d, s) || __CPROVER_POINTER_OFFSET(d) <= __CPROVER_POINTER_OFFSET(s)) { for (u64 i = 0; i < n; ++i) d[i] = s[i]; } else { for (u64 i = n; i-- > 0;) d[i] = s[i]; } }
#endif
#ifdef __CPROVER__
u64 __CPROVER_uninterpreted_mul64(u64, u64);
/* commutative by construction: operands are ordered before the application */
static inline u64 ll2c_uf_mul64(u64 a, u64 b) { return a <= b ? __CPROVER_uninterpreted_mul64(a, b) : __CPROVER_uninterpreted_mul64(b, a); }
#else
#define ll2c_uf_mul64(a, b) ((u64)((a) * (b)))
#endif
static inline int __cxa_guard_acquire(u64* g) { return *(u8*)g == 0; }
static inline void __cxa_guard_release(u64* g) { *(u8*)g = 1; }
#define __cxa_atexit(a, b, c) 0
static inline void ll2c_unreachable(void) { LL2C_CHECK(0, "ll2c: reached IR 'unreachable'"); __CPROVER_assume(0); }
static inline u64 ll2c_ctlz64(u64 x) { u64 n = 0; if (x == 0) return 64; for (int i = 63; i >= 0; --i) { if ((x >> i) & 1) break; ++n; } return n; }
static inline u32 ll2c_ctlz32(u32 x) { u32 n = 0; if (x == 0) return 32; for (int i = 31; i >= 0; --i) { if ((x >> i) & 1) break; ++n; } return n; }
static inline u64 ll2c_cttz64(u64 x) { u64 n = 0; if (x == 0) return 64; for (int i = 0; i < 64; ++i) { if ((x >> i) & 1) break; ++n; } return n; }
static inline u32 ll2c_cttz32(u32 x) { u32 n = 0; if (x == 0) return 32; for (int i = 0; i < 32; ++i) { if ((x >> i) & 1) break; ++n; } return n; }
static inline u64 ll2c_ctpop64(u64 x) { u64 n = 0; for (int i = 0; i < 64; ++i) n += (x >> i) & 1; return n; }
static inline u32 ll2c_ctpop32(u32 x) { u32 n = 0; for (int i = 0; i < 32; ++i) n += (x >> i) & 1; return n; }
'''


def emit_module(mod, stub_names=()):
    em = Emitter(mod)
    fn_texts = []
    protos = []
    # prototypes
    for name, f in mod.funcs.items():
        if name.startswith('llvm.') or name.startswith('__CPROVER_') or name in LIBC or name in RUNTIME_NAMES: continue
        params = ', '.join(em.ct(t) for t, n, a in f.params)
        if f.vararg: params += (', ...' if params else '')
        protos.append('%s %s(%s);' % (em.ct(f.ret), em.cg(name), params if (params or f.vararg) else 'void'))
    # globals
    gdecl = []
    gdef = []
    for name, (ty, init, is_const, external) in mod.globals.items():
        c = em.cg(name)
        cty = em.ct(ty)
        gdecl.append('extern %s %s;' % (cty, c))
        if not external:
            if init is None:
                gdef.append('%s %s;' % (cty, c))
            else:
                gdef.append('%s %s = %s;' % (cty, c, em.init(init)))
    for name, f in mod.funcs.items():
        if f.defined:
            fn_texts.append(FnEmitter(em, f).emit())
    # ctors
    ctor = ['void ll2c_run_global_ctors(void) {']
    for prio, fn in sorted(mod.ctors, key=lambda x: x[0]):
        ctor.append('  %s();' % em.cg(fn))
    ctor.append('}')
    # type definitions (after everything else has requested its types)
    tdefs = emit_types(em)
    return '\n'.join([PRELUDE, tdefs, '\n'.join(protos), '\n'.join(gdecl), '\n'.join(gdef), '\n\n'.join(fn_texts), '\n'.join(ctor), ''])


def emit_types(em):
    mod = em.mod
    # make sure all named struct field types are registered (iterate to fixpoint)
    done = set()
    while True:
        pending = [n for n in mod.named if n not in done]
        pend_anon = [n for n in em.anon_defs if n not in done]
        pend_fp = [n for n in em.fnptr_defs if n not in done]
        if not pending and not pend_anon and not pend_fp: break
        for n in pending:
            done.add(n)
            ty = mod.named[n]
            if isinstance(ty, StructTy):
                for f in ty.fields: em.ct(f)
        for n in pend_anon:
            done.add(n)
            ty = em.anon_defs[n]
            if isinstance(ty, StructTy):
                for f in ty.fields: em.ct(f)
            else:
                em.ct(ty.el)
        for n in pend_fp:
            done.add(n)
            fty = em.fnptr_defs[n]
            if not isinstance(fty.ret, VoidTy): em.ct(fty.ret)
            for p in fty.params: em.ct(p)
    out = []
    # forward decls
    for n, c in em.named_c.items(): out.append('%s;' % c)
    for c in em.anon_defs: out.append('%s;' % c)
    for n, fty in em.fnptr_defs.items():
        params = ', '.join(em.ct(p) for p in fty.params)
        if fty.vararg: params += (', ...' if params else '')
        out.append('typedef %s (*%s)(%s);' % (em.ct(fty.ret), n, params if (params or fty.vararg) else 'void'))
    # definitions in by-value dependency order
    defs = {}
    for n, ty in mod.named.items(): defs[em.named_c[n]] = ty
    for c, ty in em.anon_defs.items(): defs[c] = ty
    emitted = set()
    visiting = set()

    def byval_deps(ty):
        if isinstance(ty, StructTy): return ty.fields
        if isinstance(ty, ArrTy): return [ty.el]
        return []

    def visit(c):
        if c in emitted: return
        if c in visiting: raise RecursionError('by-value cycle at ' + c)
        visiting.add(c)
        ty = defs[c]
        for d in byval_deps(ty):
            if isinstance(d, (NamedTy, StructTy, ArrTy)):
                visit(em.ct(d))
        visiting.discard(c)
        emitted.add(c)
        if isinstance(ty, OpaqueTy):
            return
        if isinstance(ty, StructTy):
            fl = ' '.join('%s f%d;' % (em.ct(f), i) for i, f in enumerate(ty.fields))
            if not ty.fields: fl = 'char ll2c_empty;'
            out.append('%s { %s }%s;' % (c, fl, ' __attribute__((packed))' if ty.packed else ''))
        elif isinstance(ty, ArrTy):
            out.append('%s { %s a[%d]; };' % (c, em.ct(ty.el), max(ty.n, 1) if ty.n else 1) if ty.n else
                       '%s { %s a[1]; }; /* zero-length array */' % (c, em.ct(ty.el)))
    for c in list(defs): visit(c)
    return '\n'.join(out)


if __name__ == '__main__':
    src = open(sys.argv[1]).read()
    mod = parse_module(src)
    text = emit_module(mod)
    if len(sys.argv) >= 4 and sys.argv[2] == '-o':
        open(sys.argv[3], 'w').write(text)
    else:
        sys.stdout.write(text)

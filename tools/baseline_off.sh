#!/bin/sh
# Build /repo's test suite with the YOMM2_VERIF guard OFF in a scratch directory and run it
# (the pinned baseline command: ctest --test-dir <dir> -j8 --timeout 900).
set -e
B=$(mktemp -d "${VERIF_SCRATCH:-/var/tmp}/yomm2_baseline_XXXXXX")
trap 'rm -rf "$B"' EXIT
cmake -G Ninja -S /repo -B "$B" -DYOMM2_ENABLE_TESTS=ON -DCMAKE_BUILD_TYPE=RelWithDebInfo -DCMAKE_CXX_FLAGS=-Wno-error > "$B/configure.log" 2>&1 || { tail -50 "$B/configure.log"; exit 1; }
cmake --build "$B" -j"$(nproc)" > "$B/build.log" 2>&1 || { tail -80 "$B/build.log"; exit 1; }
ctest --test-dir "$B" -j8 --timeout 900

/* Native runtime for harnesses: feeds nondet_* from a replay file or a seeded
 * generator, prints observables.  Linked both with the g++ build of a harness
 * (real libstdc++ / boost, real yomm2 headers) and with the gcc build of the
 * C translation produced by ll2c (the text CBMC analyses), so that their
 * outputs can be compared line by line. */
#include <stdint.h>
#include <stdio.h>
#include <stdlib.h>
#include <string.h>

void cbmc_main(void);
#ifdef TRANSLATED
void ll2c_run_global_ctors(void);
#else
void ll2c_run_global_ctors(void) {}
#endif

static uint64_t in_[65536];
static unsigned nin_, pos_;
static int random_mode;
static uint64_t rng_;
static int fails_;

static uint64_t next_raw(void) {
    if (pos_ < nin_) return in_[pos_++];
    pos_++;
    if (!random_mode) return 0;
    rng_ ^= rng_ << 13; rng_ ^= rng_ >> 7; rng_ ^= rng_ << 17;
    return rng_;
}
static uint64_t shape(uint64_t v) {
    /* random mode: favour small and boundary values */
    if (!random_mode || pos_ <= nin_) return v;
    switch ((v >> 60) & 7) {
    case 0: return (v >> 8) & 7;
    case 1: return (v >> 8) & 63;
    case 2: return ~(uint64_t)0 - ((v >> 8) & 3);
    case 3: return (uint64_t)1 << ((v >> 8) & 63);
    default: return v;
    }
}
unsigned long nondet_u64(void) { return shape(next_raw()); }
unsigned nondet_u32(void) { return (unsigned)shape(next_raw()); }
unsigned long nondet_range(unsigned long lo, unsigned long hi) {
    uint64_t v = next_raw();
    if (v >= lo && v <= hi) return v;
    if (!random_mode) return v; /* replay: let the assume fail visibly */
    if (hi - lo == ~(uint64_t)0) return v;
    return lo + v % (hi - lo + 1);
}
void verif_out(unsigned long v) { printf("OUT %lu\n", v); }
void verif_assert(int cond, int id) {
    if (!cond) { printf("ASSERT-FAIL %d\n", id); fflush(stdout); fails_++; }
}
void ll2c_native_assert(int cond, const char* what) {
    if (!cond) { printf("ASSERT-FAIL %s\n", what + strlen("verif_assert ")); fflush(stdout); fails_++; }
}
void ll2c_native_check(int cond, const char* what) {
    if (!cond) { printf("CHECK-FAIL %s\n", what); fflush(stdout); fails_++; }
}
static void finish(const char* how) {
    printf("%s\n", how);
    fflush(stdout);
    exit(fails_ ? 1 : 0);
}
void ll2c_assume_fail(void) { finish("ASSUME-FAIL"); }
#ifndef TRANSLATED
void __CPROVER_assume(int c) { if (!c) ll2c_assume_fail(); }
#endif
void verif_end_path(void) { finish("END-PATH"); }

int main(int argc, char** argv) {
    if (argc >= 3 && !strcmp(argv[1], "replay")) {
        FILE* f = fopen(argv[2], "r");
        if (!f) { perror(argv[2]); return 4; }
        char line[256];
        while (fgets(line, sizeof line, f)) {
            if (line[0] == '#' || line[0] == '\n') continue;
            in_[nin_++] = strtoull(line, 0, 0);
        }
        fclose(f);
    } else if (argc >= 3 && !strcmp(argv[1], "random")) {
        random_mode = 1;
        rng_ = strtoull(argv[2], 0, 0) * 0x9E3779B97F4A7C15ull + 0x1234567;
        if (!rng_) rng_ = 1;
    } else {
        fprintf(stderr, "usage: %s replay <file> | random <seed>\n", argv[0]);
        return 4;
    }
    ll2c_run_global_ctors();
    cbmc_main();
    finish("END");
    return 0;
}

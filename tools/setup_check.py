#!/usr/bin/env python3
"""setup: nothing to build (python + system tools only); verify the tools are present."""
import shutil, sys
missing = [t for t in ('clang++-14', 'cbmc', 'gcc', 'g++', 'cmake', 'ninja') if not shutil.which(t)]
if missing:
    print('missing tools:', missing); sys.exit(1)
print('setup ok')

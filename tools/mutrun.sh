#!/bin/sh
# usage: mutrun.sh <seed dir name under seeded/> <property> [runner args...]   — runs a check against a scratch copy of /repo with the seeded patch applied
id=$1; pid=$2; shift; shift
d=/tmp/mut_$id
rm -rf $d; mkdir -p $d && cp -r /repo/include $d/include && (cd $d && patch -p1 -s < /verif/seeded/$id/patch.diff) || { echo "patch failed"; exit 3; }
cd /verif && VERIF_EVIDENCE_DIR=/tmp/mut_evidence VERIF_REPO=$d python3 runner.py $pid "$@"
rc=$?
rm -rf $d
echo "mutrun $id $pid exit=$rc"

// C14: policies are isolated.  Policy B is derived from A by rebind (KIND 1), rebind + replace of the
// error facet (KIND 2) or rebind + remove of the error facet (KIND 3).  The same class ids are
// registered in both.  A is updated and its installed state recorded; then B registers, unregisters,
// updates and replaces its handlers; A's statics must be bit-identical, A's calls must resolve as
// before, A's handler must still be A's, and the corresponding statics must be different objects.
#define VERIF_DEFINE_ABORT
#include "verif.hpp"
#include "caps_update.hpp"
#include <yorel/yomm2/core.hpp>
using namespace yorel::yomm2;
using namespace yorel::yomm2::detail;
void verif_abort_hook() { verif_assert(0, 40); }

#ifndef KIND
#define KIND 1
#endif

struct Obj { type_id type; };
struct sym_rtti : policy::rtti {
    template<typename T> static type_id static_type() { return 0; }
    template<typename T> static type_id dynamic_type(const T& o) {
        if constexpr (std::is_same_v<T, Obj>) return o.type; else return 0;
    }
};
static int a_handler_calls, b_handler_calls, b_call_errors;
struct other_error : virtual policy::error_handler {
    static void error(const error_type&) { b_handler_calls++; }
};

#if KIND == 5
// hash facets: their statics (multiplier, shift, length, control table) must be per policy too
struct A : policy::basic_policy<A, sym_rtti, policy::fast_perfect_hash<A>, policy::vptr_vector<A>, policy::backward_compatible_error_handler<A>> {};
struct B : A::rebind<B> {};
struct A2 : policy::basic_policy<A2, sym_rtti, policy::checked_perfect_hash<A2>, policy::vptr_vector<A2>, policy::backward_compatible_error_handler<A2>> {};
struct B2 : A2::rebind<B2> {};
#elif KIND == 4
// facets with NON-DEFAULT extra template arguments: they must be re-bound too
#include <map>
using custom_map = std::map<type_id, const std::uintptr_t*>;
struct provider { static void default_error_handler(const error_type&) {} };
struct A : policy::basic_policy<A, sym_rtti, policy::vptr_map<A, custom_map>, policy::vectored_error<A, provider>> {};
struct B : A::rebind<B> {};
#else
struct A : policy::basic_policy<A, sym_rtti, policy::vptr_vector<A>, policy::basic_indirect_vptr<A>, policy::backward_compatible_error_handler<A>> {};
#endif
#if KIND == 4 || KIND == 5
#elif KIND == 1
struct B : A::rebind<B> {};
#elif KIND == 2
struct B : A::rebind<B>::replace<policy::error_handler, other_error> {};
#else
struct B : A::rebind<B>::remove<policy::error_handler> {};
#endif

static void handler_a(const error_type&) { a_handler_calls++; }
static void handler_b(const error_type&) { b_handler_calls++; }
static void call_error_b(const method_call_error&, std::size_t, type_id*) { b_call_errors++; }

struct key;
using MA = method<key, void(virtual_<Obj&>, virtual_<Obj&>), A>;
using MB = method<key, void(virtual_<Obj&>, virtual_<Obj&>), B>;

#define NC 3
// Animal(1) <- Dog(2), Cat(3); complete base lists
static class_info ca[NC], cb[NC + 1];
static type_id bases[NC][2] = {{1, 0}, {2, 1}, {3, 1}};
static const int nb[NC] = {1, 2, 2};
static std::uintptr_t* sva[NC];
static std::uintptr_t* svb[NC + 1];
static type_id mvp[2] = {1, 1};
static definition_info da[2], db[3];
static type_id dva[2][2] = {{1, 1}, {2, 3}}, dvb[3][2] = {{1, 1}, {3, 2}, {2, 2}};
static void* na[2]; static void* nbx[3];

static void reg(detail::class_catalog& cat, class_info* c, std::uintptr_t** sv, int n) {
    for (int i = 0; i < n; i++) {
        c[i].type = i + 1; c[i].static_vptr = &sv[i];
        c[i].first_base = bases[i]; c[i].last_base = bases[i] + nb[i];
        cat.push_back(c[i]);
    }
}

#if KIND == 5
extern "C" void cbmc_main() {
    ll2c_run_global_ctors();
    verif_assert((void*)&A::hash_mult != (void*)&B::hash_mult && (void*)&A::hash_shift != (void*)&B::hash_shift && (void*)&A::hash_length != (void*)&B::hash_length
                 && (void*)&A::hash_min != (void*)&B::hash_min && (void*)&A::hash_max != (void*)&B::hash_max, 20);
    verif_assert((void*)&A2::hash_mult != (void*)&B2::hash_mult && (void*)&A2::control != (void*)&B2::control && (void*)&A2::hash_length != (void*)&B2::hash_length, 21);
    verif_assert((void*)&A::vptrs != (void*)&B::vptrs && (void*)&A2::vptrs != (void*)&B2::vptrs, 22);
    // and behaviourally: writing B's parameters (what update<B> does) leaves A's alone
    type_id am = nondet_u64(); std::size_t as = verif_range(0, 63), al = verif_range(0, 64);
    A::hash_mult = am; A::hash_shift = as; A::hash_length = al;
    B::hash_mult = nondet_u64(); B::hash_shift = verif_range(0, 63); B::hash_length = verif_range(0, 64);
    verif_assert(A::hash_mult == am && A::hash_shift == as && A::hash_length == al, 23);
    verif_out(1);
    VERIF_COVER(999);
}
#else
extern "C" void cbmc_main() {
    ll2c_run_global_ctors();
    // distinct objects behind corresponding statics of A and B
    verif_assert((void*)&A::classes != (void*)&B::classes && (void*)&A::methods != (void*)&B::methods, 1);
    verif_assert((void*)&A::dispatch_data != (void*)&B::dispatch_data, 2);
#if KIND == 4
    verif_assert((void*)&A::vptrs != (void*)&B::vptrs, 3);
    verif_assert((void*)&A::error != (void*)&B::error, 6);
#else
    verif_assert((void*)&A::vptrs != (void*)&B::vptrs && (void*)&A::indirect_vptrs != (void*)&B::indirect_vptrs, 3);
#endif
    verif_assert((void*)&A::static_vptr<Obj> != (void*)&B::static_vptr<Obj>, 4);
    verif_assert((void*)&MA::fn != (void*)&MB::fn && (void*)MA::fn.slots_strides != (void*)MB::fn.slots_strides, 5);
#if KIND == 1
    verif_assert((void*)&A::error != (void*)&B::error && (void*)&A::call_error != (void*)&B::call_error, 6);
#endif
    // ---- policy A: register, update, remember
    reg(A::classes, ca, sva, NC);
    MA::fn.vp_begin = mvp; MA::fn.vp_end = mvp + 2;
    for (int k = 0; k < 2; k++) { da[k].vp_begin = dva[k]; da[k].vp_end = dva[k] + 2; da[k].pf = (void*)(std::uintptr_t)(100 + k); da[k].next = &na[k]; da[k].method = &MA::fn; MA::fn.specs.push_back(da[k]); }
    A::error = handler_a;
    update<A>();
    std::size_t dd_n = A::dispatch_data.size();
    std::uintptr_t dd[DDCAP];
    for (std::size_t i = 0; i < DDCAP; i++) dd[i] = i < dd_n ? A::dispatch_data[i] : 0;
    std::size_t vp_n = A::vptrs.size();
    const std::uintptr_t* vps[VPCAP]; const std::uintptr_t* const* ivps[VPCAP];
#if KIND == 4
    for (std::size_t i = 0; i < VPCAP; i++) { vps[i] = (i >= 1 && i <= NC) ? A::vptrs.find(i)->second : nullptr; ivps[i] = nullptr; }
#else
    for (std::size_t i = 0; i < VPCAP; i++) { vps[i] = i < vp_n ? A::vptrs[i] : nullptr; ivps[i] = i < A::indirect_vptrs.size() ? A::indirect_vptrs[i] : nullptr; }
#endif
    std::uintptr_t* sv0[NC]; for (int i = 0; i < NC; i++) sv0[i] = sva[i];
    std::size_t ss0[3] = {MA::fn.slots_strides[0], MA::fn.slots_strides[1], MA::fn.slots_strides[2]};
    void* n0[2] = {na[0], na[1]};
#if KIND != 4
    auto call_error_a = A::call_error;
#endif
    std::size_t a_classes = A::classes.size(), a_methods = A::methods.size(), a_specs = MA::fn.specs.size();
    // symbolic call in A, before
    Obj x{verif_range(1, 3)}, y{verif_range(1, 3)};
    auto before = MA::fn.resolve(x, y);

    // ---- policy B acts: registers (one more record than A, a duplicate), defines, updates, unregisters, re-updates, replaces handlers
    reg(B::classes, cb, svb, NC);
    cb[NC].type = 2; cb[NC].static_vptr = &svb[1]; cb[NC].first_base = bases[1]; cb[NC].last_base = bases[1] + 2; B::classes.push_back(cb[NC]);
    MB::fn.vp_begin = mvp; MB::fn.vp_end = mvp + 2;
    for (int k = 0; k < 3; k++) { db[k].vp_begin = dvb[k]; db[k].vp_end = dvb[k] + 2; db[k].pf = (void*)(std::uintptr_t)(200 + k); db[k].next = &nbx[k]; db[k].method = &MB::fn; MB::fn.specs.push_back(db[k]); }
    update<B>();
    MB::fn.specs.remove(db[1]);
    B::classes.remove(cb[NC]);
    update<B>();
#if KIND == 1
    B::error = handler_b;
    B::call_error = call_error_b;
#elif KIND == 4
    B::error = handler_b;
#endif
    // B dispatches with its own definitions
    auto pfb = MB::fn.resolve(x, y);
    verif_assert((std::uintptr_t)pfb < 100 || (std::uintptr_t)pfb >= 200, 7);  // never one of A's definitions

    // ---- A is untouched
    verif_assert(MA::fn.resolve(x, y) == before, 10);
    bool same = A::dispatch_data.size() == dd_n && A::vptrs.size() == vp_n;
    for (std::size_t i = 0; i < DDCAP; i++) if (i < dd_n) same = same && A::dispatch_data[i] == dd[i];
#if KIND == 4
    for (std::size_t i = 1; i <= NC; i++) same = same && A::vptrs.find(i)->second == vps[i];
#else
    for (std::size_t i = 0; i < VPCAP; i++) if (i < vp_n) same = same && A::vptrs[i] == vps[i] && A::indirect_vptrs[i] == ivps[i];
#endif
    for (int i = 0; i < NC; i++) same = same && sva[i] == sv0[i];
    same = same && MA::fn.slots_strides[0] == ss0[0] && MA::fn.slots_strides[1] == ss0[1] && MA::fn.slots_strides[2] == ss0[2];
    same = same && na[0] == n0[0] && na[1] == n0[1];
    verif_assert(same, 11);
    verif_assert(A::classes.size() == a_classes && A::methods.size() == a_methods && MA::fn.specs.size() == a_specs, 12);
#if KIND != 4
    verif_assert(A::call_error == call_error_a, 13);
#endif
    // A's handler is still A's
    int bcalls = b_handler_calls;
    A::error(error_type(unknown_class_error()));
    verif_assert(a_handler_calls == 1 && b_handler_calls == bcalls, 14);
    verif_out((std::uintptr_t)before < 1000 ? (std::uintptr_t)before : 0);
    // disarm the self-removing destructors of the harness-owned records (they would run at exit in the native build)
    for (int k = 0; k < 2; k++) da[k].method = nullptr;
    for (int k = 0; k < 3; k++) db[k].method = nullptr;
    VERIF_COVER(999);
}
#endif

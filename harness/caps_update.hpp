// capacities of the bounded container models for the update-side harness (ignored by the native build)
#ifndef DDCAP
#define DDCAP 64
#endif
#ifndef VPCAP
#define VPCAP 24
#endif
#ifdef VERIF_CBMC
#ifndef VMODEL_CAP
#define VMODEL_CAP 8
#endif
#include "vmodel_base.hpp"
#ifndef PTRCAP
#define PTRCAP 32
#endif
namespace vmodel {
// vectors of pointers (dispatch_table cells, candidate lists, base lists)
template<class T> struct capacity<T*> { static constexpr std::size_t value = PTRCAP; };
template<> struct capacity<unsigned long> { static constexpr std::size_t value = DDCAP; };
template<> struct capacity<const unsigned long*> { static constexpr std::size_t value = VPCAP; };
template<> struct capacity<const unsigned long* const*> { static constexpr std::size_t value = VPCAP; };
}
#endif

// C02(b): what the resolution-error handlers report.  Leaf harness: the real
// method<>::not_implemented_handler / ambiguous_handler are called with arguments whose
// dynamic ids are solver variables; the error facet records what it receives.
// SHAPE: signature shape (non-virtual parameters before / between / after virtual ones)
// HANDLER: 1 harness error facet  2 vectored_error (std::function, replaced handler)
//          3 backward_compatible_error_handler with a recording call_error
#define VERIF_DEFINE_ABORT
#include "verif.hpp"
#include <yorel/yomm2/core.hpp>
using namespace yorel::yomm2;

#ifndef SHAPE
#define SHAPE 1
#endif
#ifndef HANDLER
#define HANDLER 1
#endif

struct Obj { type_id type; virtual void poly() {} };
struct Animal : Obj {};
constexpr type_id NONCLASS = 0xBADBAD;
struct sym_rtti : policy::rtti {
    template<typename T> static type_id static_type() { return 7; }
    template<typename T> static type_id dynamic_type(const T& o) {
        if constexpr (std::is_base_of_v<Obj, T>) return o.type; else return NONCLASS;
    }
};

static int n_calls, n_resolution, got_status;
static std::size_t got_arity;
static type_id got_types[4];
static const char* got_name;

static void record(const resolution_error& r) {
    n_resolution++;
    got_status = r.status; got_arity = r.arity; got_name = r.method_name.data();
    for (int i = 0; i < 4; i++) got_types[i] = r.types[i];
}

#if HANDLER == 1
struct rec_error : virtual policy::error_handler {
    static void error(const error_type& e) {
        n_calls++;
        if (auto r = std::get_if<resolution_error>(&e)) record(*r);
    }
};
struct P : policy::basic_policy<P, sym_rtti, rec_error> {};
#elif HANDLER == 2
struct P : policy::basic_policy<P, sym_rtti, policy::vectored_error<P>> {};
static void my_handler(const error_type& e) {
    n_calls++;
    if (auto r = std::get_if<resolution_error>(&e)) record(*r);
}
#else
struct P : policy::basic_policy<P, sym_rtti, policy::backward_compatible_error_handler<P>> {};
static void my_call_error(const method_call_error& error, std::size_t arity, type_id* types) {
    n_calls++; n_resolution++;
    got_status = error.code; got_arity = arity; got_name = error.method_name.data();
    for (std::size_t i = 0; i < 4; i++) got_types[i] = i < arity ? types[i] : 0;
}
#endif

struct key;
#if SHAPE == 1
using meth = method<key, void(virtual_<Animal&>), P>;
#define NV 1
#elif SHAPE == 2
using meth = method<key, void(double, virtual_<Animal&>), P>;
#define NV 1
#elif SHAPE == 3
using meth = method<key, void(virtual_<Animal&>, int, virtual_<Animal&>), P>;
#define NV 2
#elif SHAPE == 4
using meth = method<key, void(int, virtual_<Animal&>, virtual_<Animal*>, double), P>;
#define NV 2
#elif SHAPE == 5
using meth = method<key, void(virtual_<Animal&>, virtual_<Animal&>, virtual_<Animal&>), P>;
#define NV 3
#elif SHAPE == 6
using meth = method<key, void(virtual_ptr<Animal, P>, int, const virtual_ptr<Animal, P>&), P>;
#define NV 2
#endif

static int want_status;
static type_id want_types[3];

void verif_abort_hook() {
    // abort is the required outcome when the handler returns; before it exactly one accurate report
    verif_assert(n_calls == 1 && n_resolution == 1, 1);
    verif_assert(got_status == want_status, 2);
    verif_assert(got_arity == NV, 3);
    for (int i = 0; i < NV; i++) verif_assert(got_types[i] == want_types[i], 4);
    verif_assert(got_name == meth::fn.name.data(), 5);
    VERIF_COVER(950);
    verif_out(got_status); verif_out(got_arity);
}

static Animal a0, a1, a2;

extern "C" void cbmc_main() {
    ll2c_run_global_ctors();
#if HANDLER == 2
    P::error = my_handler;
#elif HANDLER == 3
    P::call_error = my_call_error;
#endif
    a0.type = nondet_u64(); a1.type = nondet_u64(); a2.type = nondet_u64();
    VERIF_ASSUME(a0.type != NONCLASS && a1.type != NONCLASS && a2.type != NONCLASS);
    unsigned which = nondet_u32() & 1;
    want_status = which ? resolution_error::ambiguous : resolution_error::no_definition;
    want_types[0] = a0.type; want_types[1] = a1.type; want_types[2] = a2.type;
    int k = (int)nondet_u32();
    double x = 2.5;
#if SHAPE == 1
    if (which) meth::ambiguous_handler(a0); else meth::not_implemented_handler(a0);
#elif SHAPE == 2
    if (which) meth::ambiguous_handler(x, a0); else meth::not_implemented_handler(x, a0);
#elif SHAPE == 3
    if (which) meth::ambiguous_handler(a0, k, a1); else meth::not_implemented_handler(a0, k, a1);
#elif SHAPE == 4
    if (which) meth::ambiguous_handler(k, a0, &a1, x); else meth::not_implemented_handler(k, a0, &a1, x);
#elif SHAPE == 5
    if (which) meth::ambiguous_handler(a0, a1, a2); else meth::not_implemented_handler(a0, a1, a2);
#elif SHAPE == 6
    {
        auto p0 = virtual_ptr<Animal, P>::final(a0);
        auto p1 = virtual_ptr<Animal, P>::final(a1);
        if (which) meth::ambiguous_handler(p0, k, p1); else meth::not_implemented_handler(p0, k, p1);
    }
#endif
    // a handler that returns must not let the call continue
    verif_assert(0, 6);
}

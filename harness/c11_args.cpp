// C11: a definition receives the caller's own arguments, correctly adjusted.
// One program per (KIND, INH, POS, COMP):
//   KIND  parameter kind of the virtual argument: 1 T&   2 T&&   3 T*   4 virtual_ptr<T>
//   INH   definition class vs method class: 1 same  2 single inheritance  3 second base at a non-zero offset  4 two levels
//   POS   position of the virtual parameter among three: 1 first  2 middle  3 last
//   COMP  the two non-virtual companions: 1 int by value  2 lvalue reference  3 rvalue reference to a tracked object
//         4 move-only object by rvalue reference (a by-value move-only parameter does not compile: the thunk copies by-value arguments)
// The call goes through the real method::operator() (resolve on an installed uni-method table whose cell is
// the definition's thunk, as add_function registered it) and the real thunk / virtual_traits::cast / optimal_cast.
#define VERIF_DEFINE_ABORT
#include "verif.hpp"
#include "caps_call.hpp"
#include <yorel/yomm2/core.hpp>
using namespace yorel::yomm2;
void verif_abort_hook() { verif_assert(0, 40); }

#ifndef KIND
#define KIND 1
#endif
#ifndef INH
#define INH 3
#endif
#ifndef POS
#define POS 2
#endif
#ifndef COMP
#define COMP 1
#endif

struct Obj { type_id type; long payload; virtual void poly() {} };
struct Base : Obj { long b; };
struct Other { long pad[3]; virtual void q() {} };
struct Single : Base { long s; };
struct Second : Other, Base { long t; };
struct Deep : Single { long d; };
#if INH == 1
using Def = Base;
#elif INH == 2
using Def = Single;
#elif INH == 3
using Def = Second;
#else
using Def = Deep;
#endif

struct sym_rtti : policy::rtti {
    template<typename T> static type_id static_type() { return std::is_same_v<T, Base> ? 1 : std::is_same_v<T, Def> ? 2 : 9; }
    template<typename T> static type_id dynamic_type(const T& o) {
        if constexpr (std::is_base_of_v<Obj, T>) return o.type; else return 0;
    }
};
struct P : policy::basic_policy<P, sym_rtti, policy::vptr_vector<P>> {};

// tracked companion
static int copies, moves;
struct Tracker {
    long v;
    Tracker() : v(0) {}
    explicit Tracker(long x) : v(x) {}
    Tracker(const Tracker& o) : v(o.v) { copies++; }
    Tracker(Tracker&& o) : v(o.v) { moves++; o.v = -1; }
    Tracker& operator=(const Tracker&) = delete;
};
struct MoveOnly {
    long v;
    explicit MoveOnly(long x) : v(x) {}
    MoveOnly(const MoveOnly&) = delete;
    MoveOnly(MoveOnly&& o) : v(o.v) { moves++; o.v = -1; }
};

#if COMP == 1
using C1 = int; using C2 = int;
#elif COMP == 2
using C1 = long&; using C2 = const long&;
#elif COMP == 3
using C1 = Tracker&&; using C2 = int;
#else
using C1 = MoveOnly&&; using C2 = int;
#endif

#if KIND == 1
using VM = virtual_<Base&>; using VD = Def&;
#elif KIND == 2
using VM = virtual_<Base&&>; using VD = Def&&;
#elif KIND == 3
using VM = virtual_<Base*>; using VD = Def*;
#else
using VM = virtual_ptr<Base, P>; using VD = virtual_ptr<Def, P>;
#endif

struct key;
#if POS == 1
using meth = method<key, long(VM, C1, C2), P>;
#define DEF_PARAMS VD v, C1 c1, C2 c2
#elif POS == 2
using meth = method<key, long(C1, VM, C2), P>;
#define DEF_PARAMS C1 c1, VD v, C2 c2
#else
using meth = method<key, long(C1, C2, VM), P>;
#define DEF_PARAMS C1 c1, C2 c2, VD v
#endif

// what the definition saw
static const void* seen_obj; static long seen_c1, seen_c2; static const void* seen_c1_addr; static const void* seen_c2_addr;
static int def_calls; static long ret_value;

static long the_definition(DEF_PARAMS) {
    def_calls++;
#if KIND == 1 || KIND == 2
    seen_obj = &v;
#elif KIND == 3
    seen_obj = v;
#else
    seen_obj = v.get();
#endif
#if COMP == 1
    seen_c1 = c1; seen_c2 = c2;
#elif COMP == 2
    seen_c1 = c1; seen_c2 = c2; seen_c1_addr = &c1; seen_c2_addr = &c2;
#elif COMP == 3
    seen_c1 = c1.v; seen_c1_addr = &c1; seen_c2 = c2;
#else
    seen_c1 = c1.v; seen_c1_addr = &c1; seen_c2 = c2;
#endif
    return ret_value;
}

static Def obj_a, obj_b;
static std::uintptr_t vt[2];

extern "C" void cbmc_main() {
    ll2c_run_global_ctors();
    // registration through the real front end: builds the thunk
    static meth::add_function<the_definition> reg;
    verif_assert(!meth::fn.specs.empty(), 1);
    void* thunk = meth::fn.specs.begin()->pf;
    // installed state: uni-method, slot 0, the class's v-table cell holds the thunk
    meth::fn.slots_strides[0] = 0;
    vt[0] = reinterpret_cast<std::uintptr_t>(thunk);
    P::vptrs.resize(4);
    P::vptrs[2] = vt; P::vptrs[1] = vt;
    P::static_vptr<Base> = vt; P::static_vptr<Def> = vt;
    // the caller's object: one of two objects (solver's choice), dynamic class Def
    obj_a.type = 2; obj_b.type = 2;
    unsigned which = nondet_u32() & 1;
    Def& d = which ? obj_b : obj_a;
    Base& as_base = d;  // the caller passes it as the method's parameter class
    long x1 = (long)nondet_u64(), x2 = (long)nondet_u64();
    ret_value = (long)nondet_u64();
    copies = moves = 0;
#if COMP == 1
    int a1 = (int)x1, a2 = (int)x2;
#define A1 a1
#define A2 a2
    long want1 = (int)x1, want2 = (int)x2;
#elif COMP == 2
    long l1 = x1, l2 = x2;
#define A1 l1
#define A2 l2
    long want1 = x1, want2 = x2;
#elif COMP == 3
    Tracker t1(x1); int a2 = (int)x2;
#define A1 std::move(t1)
#define A2 a2
    long want1 = x1, want2 = (int)x2;
#else
    MoveOnly m1(x1); int a2 = (int)x2;
#define A1 std::move(m1)
#define A2 a2
    long want1 = x1, want2 = (int)x2;
#endif
#if KIND == 1
#define VA as_base
#elif KIND == 2
#define VA std::move(as_base)
#elif KIND == 3
#define VA (&as_base)
#else
    virtual_ptr<Base, P> vp(as_base);
#define VA vp
#endif
#if POS == 1
    long r = meth::fn(VA, A1, A2);
#elif POS == 2
    long r = meth::fn(A1, VA, A2);
#else
    long r = meth::fn(A1, A2, VA);
#endif
    verif_assert(def_calls == 1, 2);
    // the very object, viewed as the definition's class (address adjusted under multiple inheritance)
    verif_assert(seen_obj == static_cast<const void*>(&d), 3);
    verif_assert(seen_c1 == want1 && seen_c2 == want2, 4);
#if COMP == 2
    verif_assert(seen_c1_addr == &l1 && seen_c2_addr == &l2, 5);   // references bind to the caller's own objects
#elif COMP == 3
    verif_assert(seen_c1_addr == &t1, 5);
    verif_assert(copies == 0 && moves == 0, 6);                      // an rvalue reference is forwarded, never copied or moved
#elif COMP == 4
    verif_assert(seen_c1_addr == &m1, 5);
    verif_assert(copies == 0 && moves == 0, 6);                      // forwarded as the caller's own object
#endif
    verif_assert(r == ret_value, 7);
    verif_out(which); verif_out(moves);
    VERIF_COVER(999);
}

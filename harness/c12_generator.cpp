// C12(a): generator::write_static_offsets(method_info, ostream) on ARBITRARY installed slots / strides.
// The written integers must be slots[0..arity) then strides[0..arity-1), read from the layout install_gv
// uses (all slots, then all strides).  CBMC build: ostream inserters are recording stubs (values kept,
// text dropped).  Native build: a real ostringstream, the integers are parsed back from the text.
#define VERIF_DEFINE_ABORT
#include "verif.hpp"
#include <ostream>
#include <sstream>
#include <typeinfo>
static unsigned long rec_vals[16];
static int rec_n;
#ifdef VERIF_CBMC
// Recording stubs for the out-of-line libstdc++ inserters write_static_offsets reaches, defined under the
// mangled names the IR calls (the library's own bodies live in libstdc++.so and are not part of the IR).
extern "C" {
std::ostream* stub_insert_ulong(std::ostream* self, unsigned long v) asm("_ZNSo9_M_insertImEERSoT_");
std::ostream* stub_insert_ulong(std::ostream* self, unsigned long v) { if (rec_n < 16) rec_vals[rec_n] = v; rec_n++; return self; }
std::ostream* stub_ostream_insert(std::ostream* os, const char*, long) asm("_ZSt16__ostream_insertIcSt11char_traitsIcEERSt13basic_ostreamIT_T0_ES6_PKS3_l");
std::ostream* stub_ostream_insert(std::ostream* os, const char*, long) { return os; }
}
#endif
#define private public
#include <yorel/yomm2/generator.hpp>
#undef private
using namespace yorel::yomm2;
void verif_abort_hook() { verif_assert(0, 40); }

#ifndef ARITY
#define ARITY 3
#endif

static detail::method_info mi;
static type_id vp[ARITY + 1];
static std::size_t ss[2 * ARITY];

extern "C" void cbmc_main() {
    // static initialisers (keyword table, iostreams) are not needed by write_static_offsets and are not run
    for (int i = 0; i < 2 * ARITY - 1; i++) ss[i] = verif_range(0, 99);
    mi.vp_begin = vp; mi.vp_end = vp + ARITY;
    mi.slots_strides_ptr = ss;
    mi.method_type = reinterpret_cast<type_id>(&typeid(int));
    generator g;
#ifdef VERIF_CBMC
    alignas(16) static long long fake_stream[64];
    std::ostream& os = *reinterpret_cast<std::ostream*>(fake_stream);  // only ever passed to the recording stubs
    g.write_static_offsets(mi, os);
#else
    std::ostringstream os;
    g.write_static_offsets(mi, os);
    std::string text = os.str();
    // parse the integers inside the two brace lists
    std::size_t pos = text.find("slots[] = {");
    bool in_num = false; unsigned long cur = 0;
    for (std::size_t i = pos == std::string::npos ? text.size() : pos + 7; i < text.size(); i++) {
        char c = text[i];
        if (c >= '0' && c <= '9') { cur = in_num ? cur * 10 + (c - '0') : (unsigned long)(c - '0'); in_num = true; }
        else { if (in_num) { if (rec_n < 16) rec_vals[rec_n] = cur; rec_n++; } in_num = false; }
    }
#endif
    verif_assert(rec_n == 2 * ARITY - 1, 1);
    for (int i = 0; i < 2 * ARITY - 1; i++) if (i < rec_n) verif_assert(rec_vals[i] == ss[i], 2);
    verif_out(rec_n);
    VERIF_COVER(999);
}

// Update-side harness: the real compiler<P> (augment_classes ... build_dispatch_tables, install_gv,
// publish_vptrs) runs on a registry described by the generated header "registry.h" (one per query),
// then the real method::resolve runs on a SYMBOLIC argument tuple.  Everything is compared with a
// reference oracle written from the documented rules only.
// Serves C01, C02(a), C03, C04, C06, C07, C08, C10, C15 (update time), C17.
#define VERIF_DEFINE_ABORT
#include "verif.hpp"
#include "caps_update.hpp"
#include <yorel/yomm2/core.hpp>
#ifdef C13_PRODUCE
// C13, stage 1 (native only): the real generator::encode_dispatch_data writes the text of the registry's update result
#include <cstdio>
#include <sstream>
#include <typeinfo>
#include <yorel/yomm2/generator.hpp>
template<int K> struct c13_tag {};  // class ids are type_info addresses here: the encoder prints the class names
#endif
#ifdef C13_DECODE
// C13, stage 2: the real decode_dispatch_data runs on the numbers of that text (c13_data.h, regenerated on every run)
// every position the decoder reads (KIND 0, 3: 16-bit words; 2: table word) or writes (1, 2: 64-bit words) must lie inside 'init'
static void c13_access(int kind, const void* p, const void* base, std::size_t size) {
    std::ptrdiff_t off = (const char*)p - (const char*)base;
    std::ptrdiff_t width = (kind == 0 || kind == 3) ? 2 : 8;
    bool inside = off >= 0 && off + width <= (std::ptrdiff_t)size;
    verif_assert(inside, 62);
    if (!inside) verif_end_path();  // the decoder has left the emitted structure: nothing it does afterwards is meaningful
}
#define YOMM2_VERIF_DECODE_ACCESS(KIND, PTR, INIT) c13_access(KIND, (const void*)(PTR), (const void*)&(INIT), sizeof(INIT))
#include <yorel/yomm2/decode.hpp>
#endif
using namespace yorel::yomm2;
using namespace yorel::yomm2::detail;

#include "registry.h"
#ifdef C13_DECODE
#include "c13_data.h"
#if !C13_TEXT_INVALID
// exactly the structure the generator declares (sizes C13_H / C13_S / C13_E / C13_D / C13_T parsed from the emitted text)
struct c13_data_t {
    union {
        struct {
#if C13_H > 0
            std::uint16_t headroom[C13_H];
#endif
            std::uint16_t slots[C13_S];
            std::uint16_t vtbls[C13_E];
        } encoded;
        std::uintptr_t vtbls[C13_D];
    };
    std::uintptr_t dtbls[C13_T > 0 ? C13_T : 1];
};
#define C13_GUARD 6
static struct { std::uintptr_t pre[C13_GUARD]; c13_data_t d; std::uintptr_t post[C13_GUARD]; } c13w;
#endif
#endif

#ifndef POL
#define POL 1
#endif
#ifndef CHECK_REPORT
#define CHECK_REPORT 0
#endif
#ifndef TWO_UPDATES
#define TWO_UPDATES 0
#endif
#ifndef PRIOR_GARBAGE
#define PRIOR_GARBAGE 0
#endif
#ifndef UNREG_POS
#define UNREG_POS 0
#endif
#ifndef ALIAS_IDS
#define ALIAS_IDS 0
#endif

struct Obj {
    type_id type;
};

constexpr type_id NONCLASS = 0xBADBAD;
struct sym_rtti : policy::rtti {
    template<typename T> static type_id static_type() { return 0; }
    template<typename T> static type_id dynamic_type(const T& obj) {
        if constexpr (std::is_same_v<T, Obj>) return obj.type; else return NONCLASS;
    }
#if ALIAS_IDS
    // many-to-one projection: a class has two ids (id and id + ALIAS_OFFSET)
    static type_id type_index(type_id id) { return id >= ALIAS_OFFSET ? id - ALIAS_OFFSET : id; }
#endif
};

static int n_errors, n_unknown;
static type_id err_type;
static bool expect_abort;
static type_id expect_type;
static bool installed;
struct rec_error : virtual policy::error_handler {
    static void error(const error_type& e) {
        n_errors++;
        if (auto u = std::get_if<unknown_class_error>(&e)) { n_unknown++; err_type = u->type; }
    }
};

#if POL == 1
struct P : policy::basic_policy<P, sym_rtti, policy::vptr_vector<P>, rec_error> {};
#elif POL == 2
struct P : policy::basic_policy<P, sym_rtti, policy::vptr_vector<P>, policy::basic_indirect_vptr<P>, rec_error> {};
#elif POL == 3
struct P : policy::basic_policy<P, sym_rtti, policy::vptr_map<P>, rec_error> {};
#endif

void verif_abort_hook() {
    verif_assert(expect_abort, 40);
    if (expect_abort) {
        // update-time diagnosis of an unregistered class: right id, reported before any table is installed
        verif_assert(n_errors == 1 && n_unknown == 1 && err_type == expect_type, 41);
        verif_assert(!installed, 42);
        VERIF_COVER(950);
    }
    verif_out(n_errors);
}

// ---- signature shapes -------------------------------------------------------
template<int K> struct key;
template<int SHAPE> struct sig;
template<> struct sig<1> { using type = void(virtual_<Obj&>); static constexpr int ar = 1; };
template<> struct sig<2> { using type = void(virtual_<Obj&>, virtual_<Obj&>); static constexpr int ar = 2; };
template<> struct sig<3> { using type = void(virtual_<Obj&>, virtual_<Obj&>, virtual_<Obj&>); static constexpr int ar = 3; };
template<> struct sig<4> { using type = void(int, virtual_<Obj&>); static constexpr int ar = 1; };
template<> struct sig<5> { using type = void(virtual_<Obj&>, int, virtual_<Obj&>); static constexpr int ar = 2; };
template<> struct sig<6> { using type = void(int, virtual_<Obj&>, int, virtual_<Obj&>); static constexpr int ar = 2; };
template<> struct sig<7> { using type = void(virtual_<Obj&>, virtual_<Obj&>, int); static constexpr int ar = 2; };
template<> struct sig<8> { using type = void(virtual_<Obj&>, virtual_<Obj&>, virtual_<Obj&>, virtual_<Obj&>); static constexpr int ar = 4; };

template<int SHAPE, class M>
static std::uintptr_t do_resolve(const Obj* a) {
    int k = 7;
    if constexpr (SHAPE == 1) return (std::uintptr_t)M::fn.resolve(a[0]);
    else if constexpr (SHAPE == 2) return (std::uintptr_t)M::fn.resolve(a[0], a[1]);
    else if constexpr (SHAPE == 3) return (std::uintptr_t)M::fn.resolve(a[0], a[1], a[2]);
    else if constexpr (SHAPE == 4) return (std::uintptr_t)M::fn.resolve(k, a[0]);
    else if constexpr (SHAPE == 5) return (std::uintptr_t)M::fn.resolve(a[0], k, a[1]);
    else if constexpr (SHAPE == 6) return (std::uintptr_t)M::fn.resolve(k, a[0], k, a[1]);
    else if constexpr (SHAPE == 7) return (std::uintptr_t)M::fn.resolve(a[0], a[1], k);
    else return (std::uintptr_t)M::fn.resolve(a[0], a[1], a[2], a[3]);
}

using M0 = method<key<0>, sig<M0_SHAPE>::type, P>;
#if NM > 1
using M1 = method<key<1>, sig<M1_SHAPE>::type, P>;
#endif
#if NM > 2
using M2 = method<key<2>, sig<M2_SHAPE>::type, P>;
#endif
static method_info* minfo(int m) {
#if NM > 2
    if (m == 2) return &M2::fn;
#endif
#if NM > 1
    if (m == 1) return &M1::fn;
#endif
    return &M0::fn;
}
static const int M_AR[3] = {sig<M0_SHAPE>::ar,
#if NM > 1
    sig<M1_SHAPE>::ar,
#else
    0,
#endif
#if NM > 2
    sig<M2_SHAPE>::ar
#else
    0
#endif
};

// ---- registration records ---------------------------------------------------
static class_info recs[NREC];
static type_id rec_bases[NREC][MAXB + 1];
static std::uintptr_t* svptr[NC];
static type_id mvp[NM][5];
static definition_info defs[NM][MAXD];
static type_id dvp[NM][MAXD][5];
static void* nexts[NM][MAXD];

static int dv[NM][MAXD][4];  // definition parameter classes (copy of D_VP; solver variables with -DSYM_DEFS)
static std::uintptr_t def_pf(int m, int k) { return 1000 + 100 * m + k; }

// ---- oracle (documented rules, shares nothing with yomm2) -------------------
static bool anc[NC][NC];  // anc[d][b]: b is d or a direct or indirect base of d
static void closure() {
    for (int i = 0; i < NC; i++) for (int j = 0; j < NC; j++) anc[i][j] = (i == j) || TRUE_BASE[i][j];
    for (int k = 0; k < NC; k++) for (int i = 0; i < NC; i++) for (int j = 0; j < NC; j++)
        if (anc[i][k] && anc[k][j]) anc[i][j] = true;
}
// a more specific than b: nowhere a proper base, somewhere properly derived
static bool more_specific(const int* a, const int* b, int ar) {
    bool nowhere_base = true, somewhere_derived = false;
    for (int p = 0; p < ar; p++) {
        if (a[p] != b[p] && anc[b[p]][a[p]]) nowhere_base = false;
        if (a[p] != b[p] && anc[a[p]][b[p]]) somewhere_derived = true;
    }
    return nowhere_base && somewhere_derived;
}
enum { OR_NONE = -1, OR_AMBIG = -2 };
// winner among the candidates flagged in cand[]: index, OR_NONE or OR_AMBIG
static int select_best(int m, const bool* cand) {
    int n = 0, winner = OR_AMBIG;
    for (int k = 0; k < D_N[m]; k++) if (cand[k]) {
        n++;
        bool dominates_all = true;
        for (int l = 0; l < D_N[m]; l++) if (l != k && cand[l] && !more_specific(dv[m][k], dv[m][l], M_AR[m])) dominates_all = false;
        if (dominates_all) winner = k;
    }
    return n == 0 ? OR_NONE : winner;
}
static int oracle_call(int m, const int* args) {
    bool cand[MAXD];
    for (int k = 0; k < MAXD; k++) {
        cand[k] = k < D_N[m];
        for (int p = 0; p < M_AR[m]; p++) if (k < D_N[m] && !anc[args[p]][dv[m][k][p]]) cand[k] = false;
    }
    return select_best(m, cand);
}
static int oracle_next(int m, int d) {
    bool cand[MAXD];
    for (int k = 0; k < MAXD; k++) {
        cand[k] = k < D_N[m] && k != d;
        bool differs = false;
        for (int p = 0; p < M_AR[m]; p++) if (k < D_N[m]) {
            if (!anc[dv[m][d][p]][dv[m][k][p]]) cand[k] = false;  // k's class must be d's class or a base of it
            if (dv[m][k][p] != dv[m][d][p]) differs = true;
        }
        if (!differs) cand[k] = false;
    }
    return select_best(m, cand);
}
static std::uintptr_t expected_pf(int m, int w) {
    if (w == OR_NONE) return (std::uintptr_t)minfo(m)->not_implemented;
    if (w == OR_AMBIG) return (std::uintptr_t)minfo(m)->ambiguous;
    return def_pf(m, w);
}

// ---- registration -----------------------------------------------------------
static bool is_abstract[NC];
static void register_all() {
    P::classes.clear();
    for (int r = 0; r < NREC; r++) {
        int c = REC_CLASS[r];
        recs[r].type = REC_ID[r];
        recs[r].static_vptr = &svptr[c];
        recs[r].is_abstract = is_abstract[c];
        for (int j = 0; j < REC_NB[r]; j++) rec_bases[r][j] = CLASS_ID[REC_BASES[r][j]];
        recs[r].first_base = &rec_bases[r][0];
        recs[r].last_base = &rec_bases[r][0] + REC_NB[r];
        P::classes.push_back(recs[r]);
    }
    P::methods.clear();
    for (int i = 0; i < NM; i++) {
        int m = M_ORDER[i];
        method_info* mi = minfo(m);
        for (int p = 0; p < M_AR[m]; p++) mvp[m][p] = CLASS_ID[M_VP[m][p]];
        mi->vp_begin = mvp[m];
        mi->vp_end = mvp[m] + M_AR[m];
        mi->specs.clear();
        for (int j = 0; j < D_N[m]; j++) {
            int k = D_ORDER[m][j];
            for (int p = 0; p < M_AR[m]; p++) dvp[m][k][p] = CLASS_ID[dv[m][k][p]];
            defs[m][k].vp_begin = dvp[m][k];
            defs[m][k].vp_end = dvp[m][k] + M_AR[m];
            defs[m][k].pf = (void*)def_pf(m, k);
            defs[m][k].next = &nexts[m][k];
            defs[m][k].method = mi;
            mi->specs.push_back(defs[m][k]);
        }
        P::methods.push_back(*mi);
    }
}

static std::uintptr_t call_real(int m, const Obj* a) {
#if NM > 2
    if (m == 2) return do_resolve<M2_SHAPE, M2>(a);
#endif
#if NM > 1
    if (m == 1) return do_resolve<M1_SHAPE, M1>(a);
#endif
    return do_resolve<M0_SHAPE, M0>(a);
}

static type_id id_of(int c) {
    type_id r = CLASS_ID[0];
    for (int i = 0; i < NC; i++) if (i == c) r = CLASS_ID[i];
    return r;
}

template<class Compiler>
static generic_compiler::method* find_method(Compiler& comp, int m) {
    for (auto& cm : comp.methods) if (cm.info == minfo(m)) return &cm;
    return nullptr;
}

// bounds-checked re-implementation of the documented table walk over the installed data (C04).
// Works on element indexes relative to the start of dispatch_data, so that every read is an
// explicit, checked index into the vector update sized.
static std::size_t first_slot_of[NC];  // from the compiler result: the bias of each class's v-table pointer
static std::ptrdiff_t vt_index(int c, const std::uintptr_t* base) {
    // un-bias before measuring (a biased pointer may lie outside the vector: only pointer + integer is meaningful on it)
    return ((svptr[c] + first_slot_of[c]) - base) - (std::ptrdiff_t)first_slot_of[c];
}
static std::uintptr_t checked_walk(int m, const int* args) {
    const std::uintptr_t* base = P::dispatch_data.data();
    const std::ptrdiff_t size = (std::ptrdiff_t)P::dispatch_data.size();
    const std::size_t* ss = minfo(m)->slots_strides_ptr;
    int ar = M_AR[m];
    std::ptrdiff_t vt0 = vt_index(args[0], base);  // biased start of the class's v-table
    std::ptrdiff_t cell = vt0 + (std::ptrdiff_t)ss[0];
    verif_assert(cell >= 0 && cell < size, 30);
    if (!(cell >= 0 && cell < size)) return 0;
    if (ar == 1) return P::dispatch_data[cell];
    std::ptrdiff_t disp = reinterpret_cast<const std::uintptr_t*>(P::dispatch_data[cell]) - base;
    verif_assert(disp >= 0 && disp < size, 31);
    if (!(disp >= 0 && disp < size)) return 0;
    for (int p = 1; p < ar; p++) {
        std::ptrdiff_t c2 = vt_index(args[p], base) + (std::ptrdiff_t)ss[p];
        verif_assert(c2 >= 0 && c2 < size, 32);
        if (!(c2 >= 0 && c2 < size)) return 0;
        disp = disp + (std::ptrdiff_t)(P::dispatch_data[c2] * ss[ar + p - 1]);
        verif_assert(disp >= 0 && disp < size, 33);
        if (!(disp >= 0 && disp < size)) return 0;
    }
    return P::dispatch_data[disp];
}

#ifdef C13_DECODE
static Obj c13_objs[NM][4];
static std::uintptr_t c13_want[NM];
#endif

extern "C" void cbmc_main() {
    ll2c_run_global_ctors();
    closure();
    for (int m = 0; m < NM; m++) for (int k = 0; k < MAXD; k++) for (int p = 0; p < 4; p++) dv[m][k][p] = D_VP[m][k][p];
#ifdef SYM_DEFS
    // the parameter classes of every definition are solver variables (any class deriving from the method's)
    for (int m = 0; m < NM; m++) for (int k = 0; k < D_N[m]; k++) for (int p = 0; p < M_AR[m]; p++) {
        int acc[NC]; int nacc = 0;
        for (int c = 0; c < NC; c++) if (anc[c][M_VP[m][p]]) acc[nacc++] = c;
        int pickidx = (int)verif_range(0, nacc - 1);
        dv[m][k][p] = acc[0];
        for (int c = 0; c < NC; c++) if (c == pickidx && c < nacc) dv[m][k][p] = acc[c];
    }
#endif
    for (int c = 0; c < NC; c++) is_abstract[c] = CHECK_REPORT ? (nondet_u32() & 1) : 0;
#if PRIOR_GARBAGE
    // state left by an arbitrary earlier history of updates
    {
        std::size_t n = PRIOR_GARBAGE;
        P::dispatch_data.resize(n);
        for (std::size_t i = 0; i < n; i++) P::dispatch_data[i] = nondet_u64();
        static std::uintptr_t junk[4];
        for (int c = 0; c < NC; c++) svptr[c] = (nondet_u32() & 1) ? junk : nullptr;
        for (int m = 0; m < NM; m++) for (int k = 0; k < 2 * M_AR[m] - 1; k++) minfo(m)->slots_strides_ptr[k] = nondet_u64();
        for (int m = 0; m < NM; m++) for (int k = 0; k < MAXD; k++) nexts[m][k] = (void*)nondet_u64();
#if POL != 3
        P::vptrs.resize(VPCAP);
        for (std::size_t i = 0; i < VPCAP; i++) P::vptrs[i] = (nondet_u32() & 1) ? junk : nullptr;
#else
        // the map published by an earlier update still holds entries for the classes it knew
        for (int c = 0; c < NC; c++) { unsigned known = nondet_u32() & 1; if (known) P::vptrs[CLASS_ID[c]] = junk; }
#endif
    }
#endif
    register_all();
#if UNREG_POS
    // one registered id replaced by an id that no class registration carries
    {
        type_id bad = UNREG_ID;
        expect_abort = true; expect_type = bad;
#if UNREG_POS == 1
        rec_bases[NREC - 1][0] = bad;  // in a base list
#elif UNREG_POS == 2
        mvp[NM - 1][M_AR[NM - 1] - 1] = bad;  // a method parameter
#else
        dvp[0][0][M_AR[0] - 1] = bad;  // a definition parameter (the last virtual one: the first one is registered when arity > 1)
#endif
    }
#endif
    compiler<P> comp;
    comp.compile();
    comp.install_global_tables();
    installed = true;
#ifdef C13_PRODUCE
    {
        std::ostringstream os;
        generator::encode_dispatch_data(comp, "P", os);
        std::printf("C13-BEGIN\n%s\nC13-END\n", os.str().c_str());
        std::fflush(stdout);
        std::exit(0);
    }
#endif
#if UNREG_POS
    verif_assert(0, 45);  // update accepted an unregistered class silently
#endif
    verif_assert(n_errors == 0, 46);

#if TWO_UPDATES
    // a second update with no change alters nothing: same answers, same installed words
    {
        std::uintptr_t snap_dd[DDCAP]; std::size_t snap_n = P::dispatch_data.size();
        for (std::size_t i = 0; i < DDCAP; i++) snap_dd[i] = i < snap_n ? P::dispatch_data[i] : 0;
        std::size_t snap_ss[NM][7]; std::uintptr_t* snap_sv[NC]; void* snap_next[NM][MAXD];
        for (int m = 0; m < NM; m++) for (int k = 0; k < 2 * M_AR[m] - 1; k++) snap_ss[m][k] = minfo(m)->slots_strides_ptr[k];
        for (int c = 0; c < NC; c++) snap_sv[c] = svptr[c];
        for (int m = 0; m < NM; m++) for (int k = 0; k < MAXD; k++) snap_next[m][k] = nexts[m][k];
        compiler<P> comp2;
        comp2.compile();
        comp2.install_global_tables();
        bool same = P::dispatch_data.size() == snap_n;
        for (std::size_t i = 0; i < DDCAP; i++) if (i < snap_n) same = same && P::dispatch_data[i] == snap_dd[i];
        for (int m = 0; m < NM; m++) for (int k = 0; k < 2 * M_AR[m] - 1; k++) same = same && snap_ss[m][k] == minfo(m)->slots_strides_ptr[k];
        for (int c = 0; c < NC; c++) same = same && snap_sv[c] == svptr[c];
        for (int m = 0; m < NM; m++) for (int k = 0; k < D_N[m]; k++) same = same && snap_next[m][k] == nexts[m][k];
        verif_assert(same, 47);
    }
#endif

    // ---- C04: slots ----------------------------------------------------------
    for (int c = 0; c < NC; c++) {
        auto cls = comp.class_map[P::type_index(CLASS_ID[c])];
        verif_assert(cls != nullptr, 10);
        if (!cls) continue;
        first_slot_of[c] = cls->first_slot;
        std::size_t seen[NM * 4]; int nseen = 0;
        for (int m = 0; m < NM; m++) {
            auto cm = find_method(comp, m);
            verif_assert(cm != nullptr, 11);
            if (!cm) continue;
            for (int p = 0; p < M_AR[m]; p++) if (anc[c][M_VP[m][p]]) {
                std::size_t slot = cm->slots[p];
                verif_assert(slot >= cls->first_slot && slot < cls->first_slot + cls->vtbl.size(), 12);
                for (int s = 0; s < nseen; s++) verif_assert(seen[s] != slot, 13);  // no two pairs of one class share a cell
                seen[nseen++] = slot;
            }
        }
        // publish invariant relied upon by the call-path checks
#if POL == 3
        { auto it = P::vptrs.find(CLASS_ID[c]); verif_assert(it != P::vptrs.end() && it->second == svptr[c], 14); }
#endif
#if POL != 3
        verif_assert(CLASS_ID[c] < P::vptrs.size() && P::vptrs[CLASS_ID[c]] == svptr[c], 14);
#if ALIAS_IDS
        verif_assert(CLASS_ID[c] + ALIAS_OFFSET < P::vptrs.size() && P::vptrs[CLASS_ID[c] + ALIAS_OFFSET] == svptr[c], 15);
#endif
#endif
    }

    // ---- C03: next -----------------------------------------------------------
    for (int m = 0; m < NM; m++) for (int k = 0; k < D_N[m]; k++) {
        int w = oracle_next(m, k);
        verif_assert((std::uintptr_t)nexts[m][k] == expected_pf(m, w), 20);
        verif_out(w + 2);
    }

    // ---- C01 / C02(a): every legal argument tuple (symbolic) -------------------
    for (int m = 0; m < NM; m++) {
        int args[4] = {0, 0, 0, 0};
        Obj objs[4];
        for (int p = 0; p < M_AR[m]; p++) {
            // the argument's class is the parameter's class or derives from it: pick among the acceptable classes
            int acc[NC]; int nacc = 0;
            for (int c = 0; c < NC; c++) if (anc[c][M_VP[m][p]]) acc[nacc++] = c;
            int pickidx = (int)verif_range(0, nacc - 1);
            args[p] = acc[0];
            for (int c = 0; c < NC; c++) if (c == pickidx && c < nacc) args[p] = acc[c];
            objs[p].type = id_of(args[p]);
#if ALIAS_IDS
            unsigned other = nondet_u32() & 1;
            if (other) objs[p].type += ALIAS_OFFSET;  // the object carries the class's other id
#endif
        }
        int w = oracle_call(m, args);
        std::uintptr_t want = expected_pf(m, w);
        std::uintptr_t walked = checked_walk(m, args);
        verif_assert(walked == want, 1);
        std::uintptr_t got = call_real(m, objs);
        verif_assert(got == want, 2);
#ifdef C13_DECODE
        for (int p = 0; p < 4; p++) c13_objs[m][p] = objs[p];
        c13_want[m] = got;
#endif
        if (w == OR_NONE) VERIF_COVER(901);
        if (w == OR_AMBIG) VERIF_COVER(902);
        if (w >= 0) VERIF_COVER(903);
        verif_out(w + 2);
    }

#if CHECK_REPORT
    // ---- C17: the report -------------------------------------------------------
    {
        bool any_missing = false, any_ambig = false, any_cmissing = false, any_cambig = false;
        int nmiss = 0, nambig = 0, ncmiss = 0, ncambig = 0;
        std::size_t cells = 0;
        for (int m = 0; m < NM; m++) {
            bool mm = false, ma = false, cm_ = false, ca = false;
            int t[4] = {0, 0, 0, 0};
            int ar = M_AR[m];
            int total = 1;
            for (int p = 0; p < ar; p++) total *= NC;
            for (int code = 0; code < total; code++) {
                int x = code; bool ok = true, concrete = true;
                for (int p = 0; p < ar; p++) { t[p] = x % NC; x /= NC; if (!anc[t[p]][M_VP[m][p]]) ok = false; }
                if (!ok) continue;
                for (int p = 0; p < ar; p++) if (is_abstract[t[p]]) concrete = false;
                int w = oracle_call(m, t);
                if (w == OR_NONE) { mm = true; if (concrete) cm_ = true; }
                if (w == OR_AMBIG) { ma = true; if (concrete) ca = true; }
            }
            nmiss += mm; nambig += ma; ncmiss += cm_; ncambig += ca;
            auto cmeth = find_method(comp, m);
            if (cmeth && ar > 1) cells += cmeth->dispatch_table.size();
        }
        verif_assert((comp.report.not_implemented != 0) == (nmiss != 0), 50);
        verif_assert((comp.report.ambiguous != 0) == (nambig != 0), 51);
        verif_assert((comp.report.concrete_not_implemented != 0) == (ncmiss != 0), 52);
        verif_assert((comp.report.concrete_ambiguous != 0) == (ncambig != 0), 53);
        verif_assert(comp.report.cells == cells, 54);
        verif_out(nmiss); verif_out(nambig);
    }
#endif
#ifdef C13_DECODE
    // ---- C13: decode the emitted data in a process holding the same registrations ---------------
#if C13_TEXT_INVALID
    verif_assert(0, 64);  // the emitted text is not valid C++ (negative array size / more initialisers than elements)
#else
    {
        std::size_t snap_ss[NM][7];
        for (int m = 0; m < NM; m++) for (int k = 0; k < 2 * M_AR[m] - 1; k++) { snap_ss[m][k] = minfo(m)->slots_strides_ptr[k]; minfo(m)->slots_strides_ptr[k] = 0x7777; }
        // a fresh process: no class has a v-table yet, nothing of update's own tables remains
        for (int c = 0; c < NC; c++) svptr[c] = nullptr;
        for (std::size_t i = 0; i < P::dispatch_data.size(); i++) P::dispatch_data[i] = 0xDEAD0000 + i;
        for (std::size_t i = 0; i < P::vptrs.size(); i++) P::vptrs[i] = nullptr;
        // the memory around the emitted structure is ARBITRARY: decoding must neither depend on it nor change it
        std::uintptr_t pre[C13_GUARD], post[C13_GUARD];
        for (int i = 0; i < C13_GUARD; i++) { pre[i] = c13w.pre[i] = nondet_u64(); post[i] = c13w.post[i] = nondet_u64(); }
        for (int i = 0; i < C13_S; i++) c13w.d.encoded.slots[i] = i < C13_NS ? C13_SLOTS[i] : 0;
        for (int i = 0; i < C13_E; i++) c13w.d.encoded.vtbls[i] = i < C13_NV ? C13_VT[i] : 0;
        for (int i = 0; i < C13_T; i++) c13w.d.dtbls[i] = i < C13_ND ? C13_DT[i] : 0;
        VERIF_COVER(959);
        decode_dispatch_data<P>(c13w.d);
        bool guards = true;
        for (int i = 0; i < C13_GUARD; i++) guards = guards && c13w.pre[i] == pre[i] && c13w.post[i] == post[i];
        verif_assert(guards, 61);  // a write outside the emitted structure
        bool same = true;
        for (int m = 0; m < NM; m++) for (int k = 0; k < 2 * M_AR[m] - 1; k++) same = same && snap_ss[m][k] == minfo(m)->slots_strides_ptr[k];
        verif_assert(same, 63);    // slots and strides as update installed them
        for (int m = 0; m < NM; m++) {
            std::uintptr_t got = call_real(m, c13_objs[m]);
            verif_assert(got == c13_want[m], 60);  // every call behaves as after update (for every argument tuple, every surrounding memory)
        }
        VERIF_COVER(960);
    }
#endif
#endif
    VERIF_COVER(999);
}

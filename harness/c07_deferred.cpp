// C07 / C10: one-time resolution of deferred static type ids (compiler::resolve_static_type_ids)
// across repeated updates.  Ids are produced by generator functions; a list carries a trailing flag
// word (0 = holds generator addresses, 1 = holds ids).  The ids used here are themselves addresses of
// functions (a legitimate choice for a pointer-valued custom RTTI), so that resolving an id a second
// time is observable as a wrong id instead of a wild call.
#define VERIF_DEFINE_ABORT
#include "verif.hpp"
#include "caps_update.hpp"
#include <yorel/yomm2/core.hpp>
using namespace yorel::yomm2;
using namespace yorel::yomm2::detail;
void verif_abort_hook() { verif_assert(0, 40); }

#ifndef ARITY
#define ARITY 2
#endif
#ifndef UPDATES
#define UPDATES 2
#endif

// ids: addresses of these tag functions
static type_id tagA() { return 0xdead0001; }
static type_id tagB() { return 0xdead0002; }
static type_id tagC() { return 0xdead0003; }
static int gen_calls[3];
static type_id genA() { gen_calls[0]++; return (type_id)&tagA; }
static type_id genB() { gen_calls[1]++; return (type_id)&tagB; }
static type_id genC() { gen_calls[2]++; return (type_id)&tagC; }

struct def_rtti : policy::deferred_static_rtti {
    template<typename T> static type_id static_type() { return 0; }
    template<typename T> static type_id dynamic_type(const T&) { return 0; }
};
struct P : policy::basic_policy<P, def_rtti> {};

static class_info cA, cB, cC, cB2;   // cB2: class B registered a second time (another module), same shared base list
static type_id basesA[2], basesB[3], basesC[1];  // ids + flag word; C is registered without bases
static method_info meth;
static type_id mvp[ARITY + 1];
static definition_info d0, d1;
static type_id d0vp[ARITY + 1], d1vp[ARITY + 1];

static type_id gen_of(unsigned k) { return k == 0 ? (type_id)&genA : k == 1 ? (type_id)&genB : (type_id)&genC; }
static type_id id_of(unsigned k) { return k == 0 ? (type_id)&tagA : k == 1 ? (type_id)&tagB : (type_id)&tagC; }

extern "C" void cbmc_main() {
    ll2c_run_global_ctors();
    // which class each parameter of the method / of the definitions names: solver variables
    unsigned mk[ARITY], k0[ARITY], k1[ARITY];
    for (int p = 0; p < ARITY; p++) { mk[p] = (unsigned)verif_range(0, 2); k0[p] = (unsigned)verif_range(0, 2); k1[p] = (unsigned)verif_range(0, 2); }
    cA.type = (type_id)&genA; basesA[0] = (type_id)&genA; basesA[1] = 0; cA.first_base = basesA; cA.last_base = basesA + 1;
    cB.type = (type_id)&genB; basesB[0] = (type_id)&genB; basesB[1] = (type_id)&genA; basesB[2] = 0; cB.first_base = basesB; cB.last_base = basesB + 2;
    cC.type = (type_id)&genC; cC.first_base = nullptr; cC.last_base = nullptr;  // as type_id_list<Policy, types<>>: no bases, no flag word
    cB2.type = (type_id)&genB; cB2.first_base = basesB; cB2.last_base = basesB + 2;
    P::classes.push_back(cA); P::classes.push_back(cB); P::classes.push_back(cC); P::classes.push_back(cB2);
    for (int p = 0; p < ARITY; p++) { mvp[p] = gen_of(mk[p]); d0vp[p] = gen_of(k0[p]); d1vp[p] = gen_of(k1[p]); }
    mvp[ARITY] = 0; d0vp[ARITY] = 0; d1vp[ARITY] = 0;
    meth.vp_begin = mvp; meth.vp_end = mvp + ARITY;
    d0.vp_begin = d0vp; d0.vp_end = d0vp + ARITY; d0.method = &meth;
    d1.vp_begin = d1vp; d1.vp_end = d1vp + ARITY; d1.method = &meth;
    meth.specs.push_back(d0); meth.specs.push_back(d1);
    P::methods.push_back(meth);
    for (int u = 0; u < UPDATES; u++) {
        compiler<P> comp;
        comp.resolve_static_type_ids();
        // after every update every id is the class's id
        verif_assert(cA.type == (type_id)&tagA && cB.type == (type_id)&tagB && cC.type == (type_id)&tagC && cB2.type == (type_id)&tagB, 1);
        verif_assert(basesA[0] == (type_id)&tagA && basesB[0] == (type_id)&tagB && basesB[1] == (type_id)&tagA, 2);
        for (int p = 0; p < ARITY; p++) {
            verif_assert(mvp[p] == id_of(mk[p]), 3);
            verif_assert(d0vp[p] == id_of(k0[p]), 4);
            verif_assert(d1vp[p] == id_of(k1[p]), 5);
        }
        verif_out(u);
    }
    VERIF_COVER(999);
}

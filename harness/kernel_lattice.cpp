// Kernel: compiler<P>::augment_classes (lattice inference) on SYMBOLIC base lists.
// NC classes; class i may list any subset of the classes j < i (its direct bases and, redundantly, any of their
// bases) plus itself, in NC fixed slots (an unused slot repeats the class itself, which the front end also lists).
// Every direct-base relationship of the TRUE graph appears in the class's list (the property's premise); the true
// graph is itself symbolic.  After augment_classes: covariant_classes(b) must be exactly the classes that are b or
// derive from b, transitive_bases(c) exactly c's proper bases, direct_bases(c) exactly the true direct bases.
#define VERIF_DEFINE_ABORT
#include "verif.hpp"
#ifndef PTRCAP
#define PTRCAP 8
#endif
#include "caps_update.hpp"
#include <yorel/yomm2/core.hpp>
using namespace yorel::yomm2;
using namespace yorel::yomm2::detail;
void verif_abort_hook() { verif_assert(0, 40); }

#ifndef NC
#define NC 3
#endif

struct sym_rtti : policy::rtti {
    template<typename T> static type_id static_type() { return 0; }
    template<typename T> static type_id dynamic_type(const T&) { return 0; }
};
struct P : policy::basic_policy<P, sym_rtti, policy::vptr_vector<P>> {};

static class_info recs[NC];
static type_id lists[NC][NC];
static std::uintptr_t* sv[NC];
static bool direct[NC][NC];   // true graph: j is a direct base of i (j < i)
static bool anc[NC][NC];

extern "C" void cbmc_main() {
    ll2c_run_global_ctors();
    // symbolic true graph (acyclic by construction), its closure, and its transitive reduction premise
    for (int i = 0; i < NC; i++) for (int j = 0; j < NC; j++) direct[i][j] = j < i ? (nondet_u32() & 1) : false;
    for (int i = 0; i < NC; i++) for (int j = 0; j < NC; j++) anc[i][j] = i == j || direct[i][j];
    for (int k = 0; k < NC; k++) for (int i = 0; i < NC; i++) for (int j = 0; j < NC; j++) if (anc[i][k] && anc[k][j]) anc[i][j] = true;
    // a direct base is not also reachable through another base (that is what "direct" means in C++: it could be, but then
    // the library's reconstruction, which yields the transitive reduction, would legitimately differ)
    for (int i = 0; i < NC; i++) for (int j = 0; j < NC; j++) if (direct[i][j])
        for (int k = 0; k < NC; k++) if (k != i && k != j) VERIF_ASSUME(!(anc[i][k] && anc[k][j]));
    // symbolic presentation: slot j of class i's list holds j if listed, else the class itself
    for (int i = 0; i < NC; i++) {
        for (int j = 0; j < NC; j++) {
            bool listed = false;
            if (j < i && anc[i][j]) { listed = direct[i][j] ? true : (nondet_u32() & 1); }   // every direct base listed; indirect ones optionally
            lists[i][j] = listed ? (type_id)(j + 1) : (type_id)(i + 1);
        }
        recs[i].type = i + 1;
        recs[i].static_vptr = &sv[i];
        recs[i].first_base = lists[i];
        recs[i].last_base = lists[i] + NC;
    }
    // symbolic registration order
    int perm[NC];
    for (int i = 0; i < NC; i++) { perm[i] = (int)verif_range(0, NC - 1); for (int j = 0; j < i; j++) VERIF_ASSUME(perm[j] != perm[i]); }
    for (int i = 0; i < NC; i++) for (int c = 0; c < NC; c++) if (perm[i] == c) P::classes.push_back(recs[c]);
    compiler<P> comp;
    comp.augment_classes();
    generic_compiler::class_* cls[NC];
    for (int c = 0; c < NC; c++) { cls[c] = comp.class_map[(type_id)(c + 1)]; verif_assert(cls[c] != nullptr, 1); }
    for (int c = 0; c < NC; c++) {
        if (!cls[c]) continue;
        for (int d = 0; d < NC; d++) {
            if (!cls[d]) continue;
            bool in_cov = cls[c]->covariant_classes.find(cls[d]) != cls[c]->covariant_classes.end();
            verif_assert(in_cov == anc[d][c], 2);       // d acceptable where c is expected  <=>  c is d or a base of d
            bool in_tb = std::find(cls[c]->transitive_bases.begin(), cls[c]->transitive_bases.end(), cls[d]) != cls[c]->transitive_bases.end();
            verif_assert(in_tb == (c != d && anc[c][d]), 3);
            bool in_db = std::find(cls[c]->direct_bases.begin(), cls[c]->direct_bases.end(), cls[d]) != cls[c]->direct_bases.end();
            verif_assert(in_db == direct[c][d], 4);
            bool in_dd = std::find(cls[c]->direct_derived.begin(), cls[c]->direct_derived.end(), cls[d]) != cls[c]->direct_derived.end();
            verif_assert(in_dd == direct[d][c], 5);
        }
        std::size_t nb = 0; for (int d = 0; d < NC; d++) if (d != c && anc[c][d]) nb++;
        verif_assert(cls[c]->weight == nb && cls[c]->transitive_bases.size() == nb, 6);   // no duplicates
    }
    verif_out(perm[0]);
    VERIF_COVER(999);
}

// Call-path leaf harness (no compiler): virtual_ptr routes, method::resolve table walk,
// checked lookups, frame condition.  Serves C09, C15 (call time), C16 and C01's seam (c).
//
// The installed state is ARBITRARY subject to the invariant update establishes
// (publish_vptrs: vptrs[index(id of C)] == static_vptr<C>; control[index] == id), which the
// update-side harnesses assert after install_gv.
//
// POL: 1 vptr_vector (ids index the vector directly)   2 fast_perfect_hash + vptr_vector
//      3 checked_perfect_hash (+runtime_checks) + vptr_vector     4 vptr_map
// INDIRECT: add basic_indirect_vptr (only with POL 1..3)
// SCEN: 1 uni-method + virtual_ptr routes   2 multi-method table walk (arity 2, shape by SHAPE)
//       3 indirect: virtual_ptr survives a later update   4 unregistered dynamic class (checked)
//       5 final on an object of another dynamic type (checked)
#define VERIF_DEFINE_ABORT
#include "verif.hpp"
#include "caps_call.hpp"
#include <yorel/yomm2/core.hpp>
using namespace yorel::yomm2;

#ifndef POL
#define POL 1
#endif
#ifndef INDIRECT
#define INDIRECT 0
#endif
#ifndef SCEN
#define SCEN 1
#endif
#ifndef SHAPE
#define SHAPE 1
#endif

struct Obj {
    type_id type;
    virtual void poly() {}
};
struct Animal : Obj { static type_id sid; };
struct Dog : Animal { static type_id sid; };
struct Cat : Animal { static type_id sid; };
struct Unreg : Animal { static type_id sid; };  // never registered
type_id Animal::sid, Dog::sid, Cat::sid, Unreg::sid;

constexpr type_id NONCLASS = 0xBADBAD;
struct sym_rtti : policy::rtti {
    template<typename T> static type_id static_type() {
        if constexpr (std::is_base_of_v<Animal, T>) return T::sid; else return NONCLASS;
    }
    template<typename T> static type_id dynamic_type(const T& o) {
        if constexpr (std::is_base_of_v<Obj, T>) return o.type; else return NONCLASS;
    }
};

static int n_errors, n_unknown, n_table_err, n_other;
static type_id err_type;
static bool expect_abort;
static int expect_kind;  // 1 unknown_class, 2 method_table
static type_id expect_type;
static int definitions_called;

struct rec_error : virtual policy::error_handler {
    static void error(const error_type& e) {
        n_errors++;
        if (auto u = std::get_if<unknown_class_error>(&e)) { n_unknown++; err_type = u->type; }
        else if (auto t = std::get_if<method_table_error>(&e)) { n_table_err++; err_type = t->type; }
        else n_other++;
    }
};

#if POL == 1
#if INDIRECT
struct P : policy::basic_policy<P, sym_rtti, policy::vptr_vector<P>, policy::basic_indirect_vptr<P>, rec_error> {};
#else
struct P : policy::basic_policy<P, sym_rtti, policy::vptr_vector<P>, rec_error> {};
#endif
#elif POL == 2
#if INDIRECT
struct P : policy::basic_policy<P, sym_rtti, policy::fast_perfect_hash<P>, policy::vptr_vector<P>, policy::basic_indirect_vptr<P>, rec_error> {};
#else
struct P : policy::basic_policy<P, sym_rtti, policy::fast_perfect_hash<P>, policy::vptr_vector<P>, rec_error> {};
#endif
#elif POL == 3
#if INDIRECT
struct P : policy::basic_policy<P, sym_rtti, policy::checked_perfect_hash<P>, policy::vptr_vector<P>, policy::basic_indirect_vptr<P>, rec_error> {};
#else
struct P : policy::basic_policy<P, sym_rtti, policy::checked_perfect_hash<P>, policy::vptr_vector<P>, rec_error> {};
#endif
#else
struct P : policy::basic_policy<P, sym_rtti, policy::vptr_map<P>, rec_error> {};
#endif

void verif_abort_hook() {
    // an abort is legal only where the scenario expects a diagnosed error, after the right report,
    // and before any definition ran
    verif_assert(expect_abort, 40);
    if (expect_abort) {
        verif_assert(n_errors == 1 && n_other == 0, 41);
        if (expect_kind == 1) verif_assert(n_unknown == 1 && err_type == expect_type, 42);
        if (expect_kind == 2) verif_assert(n_table_err == 1 && err_type == expect_type, 43);
        verif_assert(definitions_called == 0, 44);
        VERIF_COVER(950);
    }
    verif_out(n_errors); verif_out(n_unknown); verif_out(n_table_err);
}

// ---- installed state -------------------------------------------------------
#define VSZ 4
#define TSZ 8
static std::uintptr_t vtA[VSZ], vtD[VSZ], vtC[VSZ], vtA2[VSZ], vtD2[VSZ], vtC2[VSZ];
static std::uintptr_t table[TSZ];
static Animal animal; static Dog dog; static Cat cat; static Unreg unreg;

static const std::uintptr_t* vt_of(int c) { return c == 0 ? vtA : c == 1 ? vtD : vtC; }
static Animal* obj_of(int c) { return c == 0 ? &animal : c == 1 ? static_cast<Animal*>(&dog) : static_cast<Animal*>(&cat); }
static type_id sid_of(int c) { return c == 0 ? Animal::sid : c == 1 ? Dog::sid : Cat::sid; }

static std::size_t index_of(type_id id) {
#if POL == 2 || POL == 3
    return policy::fast_perfect_hash<P>::hash_type_id(id);
#else
    return id;
#endif
}

static void install_arbitrary_state() {
    // distinct ids
#if POL == 1
    Animal::sid = verif_range(0, IDMAX); Dog::sid = verif_range(0, IDMAX); Cat::sid = verif_range(0, IDMAX); Unreg::sid = verif_range(0, IDMAX);
#else
    Animal::sid = nondet_u64(); Dog::sid = nondet_u64(); Cat::sid = nondet_u64(); Unreg::sid = nondet_u64();
    VERIF_ASSUME(Animal::sid != invalid_type && Dog::sid != invalid_type && Cat::sid != invalid_type && Unreg::sid != invalid_type);
#endif
    VERIF_ASSUME(Animal::sid != Dog::sid && Animal::sid != Cat::sid && Dog::sid != Cat::sid);
    VERIF_ASSUME(Unreg::sid != Animal::sid && Unreg::sid != Dog::sid && Unreg::sid != Cat::sid);
    animal.type = Animal::sid; dog.type = Dog::sid; cat.type = Cat::sid; unreg.type = Unreg::sid;
    // arbitrary v-table contents
    for (int i = 0; i < VSZ; i++) { vtA[i] = nondet_u64(); vtD[i] = nondet_u64(); vtC[i] = nondet_u64(); }
    for (int i = 0; i < TSZ; i++) table[i] = nondet_u64();
    P::static_vptr<Animal> = vtA; P::static_vptr<Dog> = vtD; P::static_vptr<Cat> = vtC;
    // Unreg: the current update did not register it; its static v-table pointer is whatever an earlier update
    // (when the class was still registered) left there, or null
    { static std::uintptr_t stale_vt[VSZ]; unsigned was_registered = nondet_u32() & 1; P::static_vptr<Unreg> = was_registered ? stale_vt : nullptr; }
#if POL == 2 || POL == 3
    P::hash_mult = nondet_u64() | 1;
    P::hash_shift = verif_range(64 - 3, 63);  // 2..8 buckets
    P::hash_length = verif_range(0, VCAP);
    std::size_t hA = index_of(Animal::sid), hD = index_of(Dog::sid), hC = index_of(Cat::sid);
    VERIF_ASSUME(hA < P::hash_length && hD < P::hash_length && hC < P::hash_length);
    VERIF_ASSUME(hA != hD && hA != hC && hD != hC);  // update installed a perfect hash (C05)
#endif
#if POL != 4
    {
        std::size_t n = VCAP;
        P::vptrs.resize(n);
        static std::uintptr_t stale[VSZ];
        for (std::size_t i = 0; i < VCAP; i++) P::vptrs[i] = (nondet_u32() & 1) ? stale : nullptr;  // arbitrary other entries
#if INDIRECT
        P::indirect_vptrs.resize(n);
        static std::uintptr_t* stale_ptr = stale;
        for (std::size_t i = 0; i < VCAP; i++) P::indirect_vptrs[i] = (nondet_u32() & 1) ? &stale_ptr : nullptr;
#endif
#if POL == 3
        P::control.resize(P::hash_length);
        for (std::size_t i = 0; i < VCAP; i++) if (i < P::hash_length) P::control[i] = static_cast<type_id>(-1);
#endif
        for (int c = 0; c < 3; c++) {
            std::size_t ix = index_of(sid_of(c));
            P::vptrs[ix] = vt_of(c);
#if INDIRECT
            P::indirect_vptrs[ix] = c == 0 ? &P::static_vptr<Animal> : c == 1 ? &P::static_vptr<Dog> : &P::static_vptr<Cat>;
#endif
#if POL == 3
            P::control[ix] = sid_of(c);
#endif
        }
    }
#else
    P::vptrs[Animal::sid] = vtA; P::vptrs[Dog::sid] = vtD; P::vptrs[Cat::sid] = vtC;
#endif
}

// ---- frame condition (C16): every policy static the call path may read ---
struct snapshot {
    std::uintptr_t* sv[3];
    std::size_t vsize; const std::uintptr_t* v[VCAP];
#if POL == 2 || POL == 3
    type_id mult; std::size_t shift, len, hmin, hmax;
#endif
    std::size_t ss[3];
    std::uintptr_t vt[3][VSZ]; std::uintptr_t tb[TSZ];
};
struct kuni; struct kmulti;
using uni = method<kuni, void(virtual_<Animal&>), P>;
#if SHAPE == 1
using multi = method<kmulti, void(virtual_<Animal&>, virtual_<Animal&>), P>;
#elif SHAPE == 2
using multi = method<kmulti, void(virtual_<Animal&>, int, virtual_<Animal&>), P>;
#elif SHAPE == 3
using multi = method<kmulti, void(int, virtual_<Animal&>, virtual_<Animal&>, int), P>;
#elif SHAPE == 4
using multi = method<kmulti, void(virtual_ptr<Animal, P>, double, virtual_ptr<Animal, P>), P>;
#endif

static void take(snapshot& s) {
    s.sv[0] = P::static_vptr<Animal>; s.sv[1] = P::static_vptr<Dog>; s.sv[2] = P::static_vptr<Cat>;
#if POL != 4
    s.vsize = P::vptrs.size();
    for (std::size_t i = 0; i < VCAP; i++) s.v[i] = i < s.vsize ? P::vptrs[i] : nullptr;
#endif
#if POL == 2 || POL == 3
    s.mult = P::hash_mult; s.shift = P::hash_shift; s.len = P::hash_length; s.hmin = P::hash_min; s.hmax = P::hash_max;
#endif
    s.ss[0] = uni::fn.slots_strides[0];
    s.ss[1] = multi::fn.slots_strides[0]; s.ss[2] = multi::fn.slots_strides[1];
    for (int i = 0; i < VSZ; i++) { s.vt[0][i] = vtA[i]; s.vt[1][i] = vtD[i]; s.vt[2][i] = vtC[i]; }
    for (int i = 0; i < TSZ; i++) s.tb[i] = table[i];
}
static void same(const snapshot& a, const snapshot& b, int id) {
    bool ok = a.sv[0] == b.sv[0] && a.sv[1] == b.sv[1] && a.sv[2] == b.sv[2];
#if POL != 4
    ok = ok && a.vsize == b.vsize;
    for (std::size_t i = 0; i < VCAP; i++) ok = ok && a.v[i] == b.v[i];
#endif
#if POL == 2 || POL == 3
    ok = ok && a.mult == b.mult && a.shift == b.shift && a.len == b.len && a.hmin == b.hmin && a.hmax == b.hmax;
#endif
    ok = ok && a.ss[0] == b.ss[0] && a.ss[1] == b.ss[1] && a.ss[2] == b.ss[2];
    for (int i = 0; i < VSZ; i++) ok = ok && a.vt[0][i] == b.vt[0][i] && a.vt[1][i] == b.vt[1][i] && a.vt[2][i] == b.vt[2][i];
    for (int i = 0; i < TSZ; i++) ok = ok && a.tb[i] == b.tb[i];
    verif_assert(ok, id);
}

extern "C" void cbmc_main() {
    ll2c_run_global_ctors();
    install_arbitrary_state();
    int d = (int)verif_range(0, 2);   // dynamic class of the argument seen through an Animal reference
    Animal& a = *obj_of(d);
    const std::uintptr_t* want = vt_of(d);
    snapshot before, after;

#if SCEN == 1
    uni::fn.slots_strides[0] = verif_range(0, VSZ - 1);
    take(before);
    // plain reference lookup is what update published
    verif_assert(P::dynamic_vptr(a) == want, 1);
    // route: base reference to a (possibly) derived object
    virtual_ptr<Animal, P> vp(a);
    verif_assert(vp._vptr() == want, 2);
    verif_assert(vp.get() == &a && &*vp == &a && vp.operator->() == &a, 3);
    // route: object of exactly its static type
    virtual_ptr<Dog, P> vd(dog);
    verif_assert(vd._vptr() == vtD && vd.get() == &dog, 4);
    // route: final
    auto vf = virtual_ptr<Cat, P>::final(cat);
    verif_assert(vf._vptr() == vtC && vf.get() == &cat, 5);
    auto vf2 = final_virtual_ptr<P>(dog);
    verif_assert(vf2._vptr() == vtD && vf2.get() == &dog, 6);
    // routes: converting / copy / move construction
    virtual_ptr<Animal, P> conv(vd);
    verif_assert(conv._vptr() == vtD && conv.get() == static_cast<Animal*>(&dog), 7);
    virtual_ptr<Animal, P> copy(vp);
    verif_assert(copy._vptr() == want && copy.get() == &a, 8);
    virtual_ptr<Animal, P> moved(std::move(copy));
    verif_assert(moved._vptr() == want && moved.get() == &a, 9);
    const virtual_ptr<Dog, P> cvd(dog);
    virtual_ptr<Animal, P> conv2(cvd);
    verif_assert(conv2._vptr() == vtD, 10);
    // a call through any of them resolves like the plain reference
    auto pf_ref = uni::fn.resolve(a);
    verif_assert(reinterpret_cast<std::uintptr_t>(pf_ref) == want[uni::fn.slots_strides[0]], 11);
    verif_assert(uni::fn.resolve(vp) == pf_ref, 12);
    verif_assert(uni::fn.resolve(moved) == pf_ref, 13);
    verif_assert(uni::fn.resolve(conv) == uni::fn.resolve(static_cast<Animal&>(dog)), 14);
    verif_assert(uni::fn.resolve(vf) == uni::fn.resolve(static_cast<Animal&>(cat)), 15);
    take(after);
    same(before, after, 16);  // C16: the whole call path wrote nothing
    verif_assert(n_errors == 0, 17);
    verif_out(d);
#endif

#if SCEN == 2
    int d2 = (int)verif_range(0, 2);
    Animal& b = *obj_of(d2);
    // arbitrary installed slots / stride / group numbers, as install_gv lays them out:
    // slots_strides = {slot0, slot1, stride1}; vtbl[slot0] = &table[g0]; vtbl[slot1] = g1
    std::size_t slot0 = verif_range(0, VSZ - 1), slot1 = verif_range(0, VSZ - 1), stride = verif_range(1, TSZ);
    VERIF_ASSUME(slot0 != slot1);
    multi::fn.slots_strides[0] = slot0; multi::fn.slots_strides[1] = slot1; multi::fn.slots_strides[2] = stride;
    std::size_t g0[3], g1[3];
    for (int c = 0; c < 3; c++) {
        g0[c] = verif_range(0, TSZ - 1); g1[c] = verif_range(0, TSZ - 1);
        VERIF_ASSUME(g0[c] < stride);
    }
    for (int c = 0; c < 3; c++) for (int c2 = 0; c2 < 3; c2++) VERIF_ASSUME(g0[c] + g1[c2] * stride < TSZ);
    for (int c = 0; c < 3; c++) {
        std::uintptr_t* v = c == 0 ? vtA : c == 1 ? vtD : vtC;
        for (int s = 0; s < VSZ; s++) {
            if ((std::size_t)s == slot0) v[s] = reinterpret_cast<std::uintptr_t>(&table[g0[c]]);
            if ((std::size_t)s == slot1) v[s] = g1[c];
        }
    }
    take(before);
    std::size_t cell = (d == 0 ? g0[0] : d == 1 ? g0[1] : g0[2]) + (d2 == 0 ? g1[0] : d2 == 1 ? g1[1] : g1[2]) * stride;
    std::uintptr_t expected = table[cell];
#if SHAPE == 1
    auto pf = multi::fn.resolve(a, b);
    virtual_ptr<Animal, P> pa(a), pb(b);
    auto pf2 = multi::fn.resolve(pa, pb);
#elif SHAPE == 2
    int k = (int)nondet_u32();
    auto pf = multi::fn.resolve(a, k, b);
    auto pf2 = pf;
#elif SHAPE == 3
    int k = (int)nondet_u32();
    auto pf = multi::fn.resolve(k, a, b, k);
    auto pf2 = pf;
#elif SHAPE == 4
    virtual_ptr<Animal, P> pa(a), pb(b);
    double x = 1.5;
    auto pf = multi::fn.resolve(pa, x, pb);
    auto pf2 = pf;
#endif
    verif_assert(reinterpret_cast<std::uintptr_t>(pf) == expected, 20);
    verif_assert(pf2 == pf, 21);
    take(after);
    same(before, after, 22);
    verif_out(cell);
#endif

#if SCEN == 3
    // virtual_ptr created before a later update: with an indirect policy it follows the class's
    // static v-table pointer, which the later update rewrites
    virtual_ptr<Animal, P> vp(a);
    virtual_ptr<Dog, P> vd(dog);
    auto vf = virtual_ptr<Cat, P>::final(cat);
    virtual_ptr<Animal, P> conv(vd);
    verif_assert(vp._vptr() == want, 30);
    // later update: new tables, static v-table pointers rewritten
    P::static_vptr<Animal> = vtA2; P::static_vptr<Dog> = vtD2; P::static_vptr<Cat> = vtC2;
    const std::uintptr_t* want2 = d == 0 ? vtA2 : d == 1 ? vtD2 : vtC2;
    verif_assert(vp._vptr() == want2, 31);
    verif_assert(vd._vptr() == vtD2, 32);
    verif_assert(vf._vptr() == vtC2, 33);
    verif_assert(conv._vptr() == vtD2, 34);
    verif_out(d);
#endif

#if SCEN == 4
    // checked policy: an object whose dynamic class was not registered, on each route (ROUTE)
    type_id bad = nondet_u64();
    VERIF_ASSUME(bad != invalid_type && bad != Animal::sid && bad != Dog::sid && bad != Cat::sid);
    uni::fn.slots_strides[0] = verif_range(0, VSZ - 1);
    expect_abort = true; expect_kind = 1; expect_type = bad;
#if ROUTE == 1      // plain reference
    animal.type = bad;
    auto pf = uni::fn.resolve(static_cast<Animal&>(animal));
    (void)pf;
#elif ROUTE == 2    // virtual_ptr from a base reference
    dog.type = bad;
    virtual_ptr<Animal, P> vp(static_cast<Animal&>(dog));
#elif ROUTE == 3    // virtual_ptr from an object of exactly its (unregistered) static type
    Unreg::sid = bad; unreg.type = bad;
    virtual_ptr<Unreg, P> vp(unreg);
#elif ROUTE == 4    // pointer argument of a method taking virtual_<Animal*>
    animal.type = bad;
    struct kptr; using mptr = method<kptr, void(virtual_<Animal*>), P>;
    mptr::fn.slots_strides[0] = 0;
    // method::operator() passes argument_traits::rarg(arg) to resolve
    auto pf = mptr::fn.resolve(detail::argument_traits<P, virtual_<Animal*>>::rarg(&animal));
    (void)pf;
#elif ROUTE == 5    // final on an object of exactly its (unregistered) static type
    Unreg::sid = bad; unreg.type = bad;
    auto vf = virtual_ptr<Unreg, P>::final(unreg);
    (void)vf;
#endif
    verif_assert(0, 45);  // the use of an unregistered class went undiagnosed
#endif

#if SCEN == 5
    // final on an object whose dynamic type is not the static type: method_table_error (runtime checks)
    type_id other = d == 0 ? Animal::sid : d == 1 ? Dog::sid : Cat::sid;
    VERIF_ASSUME(other != Dog::sid);
    dog.type = other;
    expect_abort = true; expect_kind = 2; expect_type = other;
    auto vf = virtual_ptr<Dog, P>::final(dog);
    (void)vf;
    verif_assert(0, 46);
#endif
    VERIF_COVER(999);
}

// Kernel: compiler<P>::best / is_more_specific / is_base on a SYMBOLIC inheritance relation.
// NC classes with an arbitrary reflexive, transitive, antisymmetric "is or derives from" relation (every
// lattice on NC classes, multiple inheritance included), ND definitions of arity AR with arbitrary parameter
// classes, presented to best() in an arbitrary order.  The result must be the definition that is more
// specific than every other one (documented rule), or "several" when there is none.
#define VERIF_DEFINE_ABORT
#include "verif.hpp"
#include "caps_update.hpp"
#include <yorel/yomm2/core.hpp>
using namespace yorel::yomm2;
using namespace yorel::yomm2::detail;
void verif_abort_hook() { verif_assert(0, 40); }

#ifndef NC
#define NC 4
#endif
#ifndef ND
#define ND 3
#endif
#ifndef AR
#define AR 2
#endif

struct sym_rtti : policy::rtti {
    template<typename T> static type_id static_type() { return 0; }
    template<typename T> static type_id dynamic_type(const T&) { return 0; }
};
struct P : policy::basic_policy<P, sym_rtti, policy::vptr_vector<P>> {};
using GC = generic_compiler;
using Comp = compiler<P>;

static GC::class_ k0, k1, k2, k3, k4;
static GC::class_* cls(int i) { return i == 0 ? &k0 : i == 1 ? &k1 : i == 2 ? &k2 : i == 3 ? &k3 : &k4; }
static GC::definition d0, d1, d2, d3;
static GC::definition* def(int i) { return i == 0 ? &d0 : i == 1 ? &d1 : i == 2 ? &d2 : &d3; }

static bool anc[NC][NC];   // anc[d][b]: b is d or a base of d
static int s[ND][AR];      // parameter classes of the definitions

static bool more_specific(int a, int b) {
    bool nowhere_base = true, somewhere_derived = false;
    for (int p = 0; p < AR; p++) {
        if (s[a][p] != s[b][p] && anc[s[b][p]][s[a][p]]) nowhere_base = false;
        if (s[a][p] != s[b][p] && anc[s[a][p]][s[b][p]]) somewhere_derived = true;
    }
    return nowhere_base && somewhere_derived;
}

extern "C" void cbmc_main() {
    ll2c_run_global_ctors();
    // arbitrary inheritance relation
    for (int i = 0; i < NC; i++) for (int j = 0; j < NC; j++) anc[i][j] = i == j ? true : (nondet_u32() & 1);
    for (int i = 0; i < NC; i++) for (int j = 0; j < NC; j++) {
        if (i != j) VERIF_ASSUME(!(anc[i][j] && anc[j][i]));                                     // antisymmetric
        for (int k = 0; k < NC; k++) VERIF_ASSUME(!(anc[i][k] && anc[k][j]) || anc[i][j]);       // transitive
    }
    // what augment_classes computes from it: covariant_classes(b) = classes that are b or derive from b
    for (int b = 0; b < NC; b++) for (int d = 0; d < NC; d++) if (anc[d][b]) cls(b)->covariant_classes.insert(cls(d));
    // arbitrary definitions
    for (int k = 0; k < ND; k++) for (int p = 0; p < AR; p++) {
        s[k][p] = (int)verif_range(0, NC - 1);
        def(k)->vp.push_back(cls(s[k][p]));
    }
    // pairwise relations
    for (int a = 0; a < ND; a++) for (int b = 0; b < ND; b++) if (a != b) {
        verif_assert(Comp::is_more_specific(def(a), def(b)) == more_specific(a, b), 1);
        bool base_everywhere = true, differs = false;
        for (int p = 0; p < AR; p++) {
            if (!anc[s[b][p]][s[a][p]]) base_everywhere = false;     // a's class must be b's class or a base of it
            if (s[a][p] != s[b][p]) differs = true;
        }
        verif_assert(Comp::is_base(def(a), def(b)) == (base_everywhere && differs), 2);
    }
    // best() on the candidates in an arbitrary order
    int perm[ND];
    for (int i = 0; i < ND; i++) { perm[i] = (int)verif_range(0, ND - 1); for (int j = 0; j < i; j++) VERIF_ASSUME(perm[j] != perm[i]); }
    std::vector<const GC::definition*> cand;
    for (int i = 0; i < ND; i++) cand.push_back(def(perm[i]));
    auto r = Comp::best(cand);
    int winner = -1;
    for (int a = 0; a < ND; a++) {
        bool dominates_all = true;
        for (int b = 0; b < ND; b++) if (a != b && !more_specific(a, b)) dominates_all = false;
        if (dominates_all) winner = a;
    }
    if (winner >= 0) {
        verif_assert(r.size() == 1, 3);
        if (r.size() == 1) verif_assert(r[0] == def(winner), 4);
        VERIF_COVER(901);
    } else {
        verif_assert(r.size() != 1, 5);   // no definition dominates: must not be resolved to a single one
        VERIF_COVER(902);
    }
    verif_out(winner + 1); verif_out(r.size());
    VERIF_COVER(999);
}

// C19 (writer half): generator::write_forward_declarations on a set of qualified names with SYMBOLIC
// characters over {a, b, ':'} (lengths are query parameters), assumed well formed.  The text written must
// equal what a reference writer produces that works component-wise from the specification (close the
// namespaces not shared with the previous name, open the missing ones, declare the class): that text is
// balanced by construction and declares each name once in exactly its namespace.
// CBMC build: the out-of-line ostream insertion routine records the inserted characters.
// Native build: a real ostringstream.
#define VERIF_DEFINE_ABORT
#include "verif.hpp"
#include <ostream>
#include <sstream>
#include <string>
#define OUTCAP 160
static char out_buf[OUTCAP]; static int out_n;
#ifdef VERIF_CBMC
#include <set>
extern "C" {
std::ostream* stub_ostream_insert(std::ostream* os, const char* s, long n) asm("_ZSt16__ostream_insertIcSt11char_traitsIcEERSt13basic_ostreamIT_T0_ES6_PKS3_l");
std::ostream* stub_ostream_insert(std::ostream* os, const char* s, long n) {
    for (long i = 0; i < 11; i++) if (i < n) { if (out_n < OUTCAP) out_buf[out_n] = s[i]; out_n++; }
    return os;
}
}
#endif
#define private public
#include <yorel/yomm2/generator.hpp>
#undef private
using namespace yorel::yomm2;
void verif_abort_hook() { verif_assert(0, 40); }

#ifndef NNAMES
#define NNAMES 2
#endif
#ifndef LEN0
#define LEN0 4
#endif
#ifndef LEN1
#define LEN1 5
#endif
#ifndef LEN2
#define LEN2 4
#endif
#define MAXLEN 8
static const int LEN[3] = {LEN0, LEN1, LEN2};
static char nm[3][MAXLEN + 1];

static bool well_formed(const char* s, int n) {
    if (n == 0 || s[0] == ':' || s[n - 1] == ':') return false;
    for (int i = 0; i < n; i++) {
        if (s[i] != 'a' && s[i] != 'b' && s[i] != ':') return false;
        if (s[i] == ':') {
            bool first = i + 1 < n && s[i + 1] == ':' && (i == 0 || s[i - 1] != ':');
            bool second = i > 0 && s[i - 1] == ':' && (i < 2 || s[i - 2] != ':');
            if (!first && !second) return false;
            if (first && i + 2 < n && s[i + 2] == ':') return false;
        }
    }
    return true;
}
static int cmp(const char* a, int na, const char* b, int nb) {  // lexicographic, as std::string
    for (int i = 0; i < MAXLEN; i++) {
        if (i >= na || i >= nb) break;
        if (a[i] != b[i]) return (unsigned char)a[i] < (unsigned char)b[i] ? -1 : 1;
    }
    return na < nb ? -1 : na > nb ? 1 : 0;
}

// ---- reference writer (component-wise) -----------------------------------------
static char ref_buf[OUTCAP]; static int ref_n;
static void emit(const char* s) { for (int i = 0; s[i]; i++) { if (ref_n < OUTCAP) ref_buf[ref_n] = s[i]; ref_n++; } }
static void emit_n(const char* s, int n) { for (int i = 0; i < MAXLEN; i++) if (i < n) { if (ref_n < OUTCAP) ref_buf[ref_n] = s[i]; ref_n++; } }
// components of a name: start offsets and lengths; the last component is the class
static int split(const char* s, int n, int* start, int* len) {
    int k = 0; start[0] = 0;
    for (int i = 0; i < n; i++) {
        if (s[i] == ':' && i + 1 < n && s[i + 1] == ':') { len[k] = i - start[k]; k++; start[k] = i + 2; i++; }
    }
    len[k] = n - start[k];
    return k + 1;
}
static bool same_comp(const char* a, int sa, int la, const char* b, int sb, int lb) {
    if (la != lb) return false;
    for (int i = 0; i < MAXLEN; i++) if (i < la && a[sa + i] != b[sb + i]) return false;
    return true;
}
static void reference(int count) {
    int pstart[5], plen[5], pn = 0; const char* prev = nullptr;  // previous name's namespace path (components 0..pn)
    for (int k = 0; k < count; k++) {
        int st[5], ln[5];
        int nc = split(nm[k], LEN[k], st, ln);
        int ns = nc - 1;  // namespace depth of this name
        int common = 0;
        while (common < pn && common < ns && same_comp(prev, pstart[common], plen[common], nm[k], st[common], ln[common])) common++;
        for (int i = common; i < pn; i++) emit("}\n");
        for (int i = common; i < ns; i++) { emit("namespace "); emit_n(nm[k] + st[i], ln[i]); emit(" {\n"); }
        emit("class "); emit_n(nm[k] + st[ns], ln[ns]); emit(";\n");
        prev = nm[k]; pn = ns;
        for (int i = 0; i < ns; i++) { pstart[i] = st[i]; plen[i] = ln[i]; }
    }
    for (int i = 0; i < pn; i++) emit("}\n");
}

extern "C" void cbmc_main() {
    for (int k = 0; k < NNAMES; k++) {
        for (int i = 0; i < LEN[k]; i++) { unsigned c = (unsigned)verif_range(0, 2); nm[k][i] = c == 0 ? 'a' : c == 1 ? 'b' : ':'; }
        nm[k][LEN[k]] = 0;
        VERIF_ASSUME(well_formed(nm[k], LEN[k]));
        if (k > 0) VERIF_ASSUME(cmp(nm[k - 1], LEN[k - 1], nm[k], LEN[k]) < 0);  // the set iterates in increasing order; distinct names
    }
    generator g;
    for (int k = 0; k < NNAMES; k++) g.names.emplace_hint(g.names.end(), std::string(nm[k], LEN[k]));
#ifdef VERIF_CBMC
    alignas(16) static long long fake_stream[64];
    std::ostream& os = *reinterpret_cast<std::ostream*>(fake_stream);
    g.write_forward_declarations(os);
#else
    std::ostringstream os;
    g.write_forward_declarations(os);
    std::string text = os.str();
    for (char c : text) { if (out_n < OUTCAP) out_buf[out_n] = c; out_n++; }
#endif
    reference(NNAMES);
    verif_assert(out_n == ref_n && out_n <= OUTCAP, 1);
    bool same = true;
    for (int i = 0; i < OUTCAP; i++) if (i < out_n && i < ref_n && out_buf[i] != ref_buf[i]) same = false;
    verif_assert(same, 2);
    verif_out(out_n);
    VERIF_COVER(999);
}

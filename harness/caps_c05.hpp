// capacities of the bounded container models for the C05 harness (ignored by the native build)
#ifndef HASHCAP
#define HASHCAP 64
#endif
#ifdef VERIF_CBMC
#include "vmodel_base.hpp"
namespace vmodel {
template<> struct capacity<unsigned long> { static constexpr std::size_t value = HASHCAP; };
template<> struct capacity<const unsigned long*> { static constexpr std::size_t value = HASHCAP; };
template<> struct capacity<const unsigned long* const*> { static constexpr std::size_t value = HASHCAP; };
}
#endif

// C11, virtual-base case: the method's class is a VIRTUAL base of the definition's class, so the
// thunk must go through Policy::dynamic_cast_ref (the policy's downcast).  The custom RTTI facet of the
// harness supplies that downcast for its own objects.  One definition (for Middle) is reached by objects
// of two dynamic classes (Middle and Leaf) whose layouts put the virtual base at different distances;
// two calls are made in a solver-chosen order and each must deliver the right sub-object.
//   KIND 1 T&   3 T*   4 virtual_ptr<T>
#define VERIF_DEFINE_ABORT
#include "verif.hpp"
#include "caps_call.hpp"
#include <yorel/yomm2/core.hpp>
using namespace yorel::yomm2;
void verif_abort_hook() { verif_assert(0, 40); }

#ifndef KIND
#define KIND 1
#endif

struct VBase { type_id type; long payload; virtual void poly() {} };
struct Middle : virtual VBase { long m; };
struct Leaf : Middle { long extra[3]; };
static Middle mid; static Leaf leaf;

struct sym_rtti : policy::rtti {
    template<typename T> static type_id static_type() { return std::is_same_v<T, VBase> ? 1 : std::is_same_v<T, Middle> ? 2 : 9; }
    template<typename T> static type_id dynamic_type(const T& o) {
        if constexpr (std::is_base_of_v<VBase, T>) return o.type; else return 0;
    }
    // the policy's downcast across a virtual base, for the objects of this program
    template<typename D, typename B>
    static D dynamic_cast_ref(B&& obj) {
        const VBase* p = &obj;
        if (p == static_cast<const VBase*>(&mid)) return static_cast<D>(mid);
        return static_cast<D>(static_cast<Middle&>(leaf));
    }
};
struct P : policy::basic_policy<P, sym_rtti, policy::vptr_vector<P>> {};

#if KIND == 1
using VM = virtual_<VBase&>; using VD = Middle&;
#elif KIND == 3
using VM = virtual_<VBase*>; using VD = Middle*;
#else
using VM = virtual_ptr<VBase, P>; using VD = virtual_ptr<Middle, P>;
#endif
struct key;
using meth = method<key, long(int, VM), P>;

static const void* seen_obj; static long seen_k; static int def_calls;
static long the_definition(int k, VD v) {
    def_calls++; seen_k = k;
#if KIND == 1
    seen_obj = &v;
#elif KIND == 3
    seen_obj = v;
#else
    seen_obj = v.get();
#endif
    return k + 1;
}
static std::uintptr_t vt[2];

static void call_and_check(Middle& d, int k) {
    VBase& as_base = d;
#if KIND == 1
    long r = meth::fn(k, as_base);
#elif KIND == 3
    long r = meth::fn(k, &as_base);
#else
    virtual_ptr<VBase, P> vp(as_base);
    long r = meth::fn(k, vp);
#endif
    verif_assert(seen_obj == static_cast<const void*>(&d), 3);   // the Middle sub-object of the very object passed
    verif_assert(seen_k == k && r == k + 1, 4);
}

extern "C" void cbmc_main() {
    ll2c_run_global_ctors();
    static meth::add_function<the_definition> reg;
    meth::fn.slots_strides[0] = 0;
    vt[0] = reinterpret_cast<std::uintptr_t>(meth::fn.specs.begin()->pf);
    P::vptrs.resize(4);
    P::vptrs[2] = vt; P::vptrs[3] = vt; P::vptrs[1] = vt;
    P::static_vptr<VBase> = vt;
    mid.type = 2; leaf.type = 3;
    unsigned first_leaf = nondet_u32() & 1;
    int k1 = (int)nondet_u32(), k2 = (int)nondet_u32();
    if (first_leaf) { call_and_check(leaf, k1); call_and_check(mid, k2); call_and_check(leaf, k1); }
    else { call_and_check(mid, k1); call_and_check(leaf, k2); call_and_check(mid, k1); }
    verif_assert(def_calls == 3, 2);
    verif_out(first_leaf);
    VERIF_COVER(999);
}

// capacities of the container models for the call-path harness
#ifndef VCAP
#define VCAP 8
#endif
#define IDMAX (VCAP - 1)
#ifdef VERIF_CBMC
#include "vmodel_base.hpp"
namespace vmodel {
template<> struct capacity<unsigned long> { static constexpr std::size_t value = VCAP; };
template<> struct capacity<const unsigned long*> { static constexpr std::size_t value = VCAP; };
template<> struct capacity<const unsigned long* const*> { static constexpr std::size_t value = VCAP; };
}
#endif

// C05: fast_perfect_hash / checked_perfect_hash + vptr_vector::publish_vptrs (leaf harness, no compiler).
// MODE 1: publish on an arbitrary id set from an arbitrary prior state; perfectness or hash_search_error.
// MODE 2: checked lookup of an arbitrary unregistered id after a successful publish.
#define VERIF_DEFINE_ABORT
#include "verif.hpp"
#include "caps_c05.hpp"
#include <iterator>
#include <random>
#include <vector>
#include <yorel/yomm2/policy.hpp>
using namespace yorel::yomm2;

#ifndef NCLS
#define NCLS 3
#endif
#ifndef CHECKED
#define CHECKED 0
#endif
#ifndef PRIOR
#define PRIOR 0
#endif
#ifndef NIDS_MASK
#define NIDS_MASK 0
#endif
#ifndef INDIRECT
#define INDIRECT 0
#endif
#ifndef PROJ
#define PROJ 0
#endif
#if INDIRECT
#define IND_FACET , policy::basic_indirect_vptr<P>
#else
#define IND_FACET
#endif

static int got_hash_search_error, got_unknown_class, got_other_error;
static type_id unknown_type_reported;
static bool expect_failure_allowed, in_lookup;
static type_id lookup_id;

struct rec_error : virtual policy::error_handler {
    static void error(const error_type& e) {
        if (std::get_if<hash_search_error>(&e)) got_hash_search_error++;
        else if (auto u = std::get_if<unknown_class_error>(&e)) { got_unknown_class++; unknown_type_reported = u->type; }
        else got_other_error++;
    }
};

struct sym_rtti : policy::rtti {
    template<typename T> static type_id static_type() { return 0; }
    template<typename T> static type_id dynamic_type(const T&) { return 0; }
#if PROJ
    // many-to-one projection: ids 2k and 2k+1 denote the same class
    static type_id type_index(type_id id) { return id >> 1; }
#endif
};

#if CHECKED
struct P : policy::basic_policy<P, sym_rtti, policy::checked_perfect_hash<P>, policy::vptr_vector<P> IND_FACET, rec_error> {};
#else
struct P : policy::basic_policy<P, sym_rtti, policy::fast_perfect_hash<P>, policy::vptr_vector<P> IND_FACET, rec_error> {};
#endif

#if MODE == 4
// C14: a second policy re-bound from P; it is updated on the very same ids just before P is
struct Q : P::rebind<Q> {};
#endif

// class record shaped like generic_compiler::class_ as seen by publish_vptrs
static type_id ids0[2], ids1[2], ids2[2], ids3[2];  // standalone arrays: keeps CBMC's accesses typed
struct Rec {
    type_id* ids;
    unsigned nids;
    std::uintptr_t table[1];
    const std::uintptr_t* vptr() const { return table; }
    const std::uintptr_t* slot;  // stands for the class's static v-table pointer variable
    const std::uintptr_t* const* indirect_vptr() const { return &slot; }
    const type_id* type_id_begin() const { return ids; }
    const type_id* type_id_end() const { return nids == 1 ? ids + 1 : ids + 2; }
};
static Rec r0{ids0, 1, {0}, nullptr}, r1{ids1, 1, {0}, nullptr}, r2{ids2, 1, {0}, nullptr}, r3{ids3, 1, {0}, nullptr};
static Rec* rec(int i) { return i == 0 ? &r0 : i == 1 ? &r1 : i == 2 ? &r2 : &r3; }
struct It {
    using iterator_category = std::forward_iterator_tag;
    using value_type = Rec; using difference_type = std::ptrdiff_t; using pointer = Rec*; using reference = Rec&;
    int i;
    Rec& operator*() const { return *rec(i); }
    Rec* operator->() const { return rec(i); }
    It& operator++() { ++i; return *this; }
    It operator++(int) { It t = *this; ++i; return t; }
    friend bool operator==(It a, It b) { return a.i == b.i; }
    friend bool operator!=(It a, It b) { return a.i != b.i; }
};

void verif_abort_hook() {
    if (in_lookup) {
        // MODE 2: abort is the expected outcome, after the right report
        verif_assert(got_unknown_class == 1 && unknown_type_reported == lookup_id, 11);
        VERIF_COVER(902);
    } else {
        // abort during publish: only legal as search exhaustion, reported as such
        verif_assert(got_hash_search_error == 1 && got_unknown_class == 0 && got_other_error == 0, 1);
        VERIF_COVER(901);
    }
    verif_out(got_hash_search_error); verif_out(got_unknown_class);
}

extern "C" void cbmc_main() {
    ll2c_run_global_ctors();
    // arbitrary prior state left by earlier updates (history as one inductive step)
    P::hash_mult = nondet_u64();
    P::hash_shift = verif_range(0, 63);
    P::hash_min = nondet_u64();
    P::hash_max = verif_range(0, HASHCAP - 1);
    P::hash_length = verif_range(0, HASHCAP);
#if PRIOR
    // earlier updates left full-size tables with arbitrary (stale) contents
    {
        static std::uintptr_t stale[1];
        P::vptrs.resize(HASHCAP);
        for (unsigned i = 0; i < HASHCAP; i++) if (nondet_u32() % 2) P::vptrs[i] = stale;
#if INDIRECT
        static const std::uintptr_t* stale_slot;
        P::indirect_vptrs.resize(HASHCAP);
        for (unsigned i = 0; i < HASHCAP; i++) if (nondet_u32() % 2) P::indirect_vptrs[i] = &stale_slot;
#endif
#if CHECKED
        P::control.resize(HASHCAP);
        for (unsigned i = 0; i < HASHCAP; i++) P::control[i] = nondet_u64();
#endif
    }
#endif
    // arbitrary id set: n classes, 1 or 2 ids each, ids pairwise distinct and != invalid_type
    const int n = NCLS;  // class count is a harness parameter: it fixes the table sizes the search tries
    type_id all[2 * NCLS]; int nall = 0;
    for (int i = 0; i < NCLS; i++) {
        Rec* r = rec(i);
        r->nids = ((NIDS_MASK >> i) & 1) ? 2 : 1;  // ids per class: harness parameter (keeps the id loops concrete)
        for (unsigned k = 0; k < 2; k++) {
            r->ids[k] = nondet_u64();
#if PROJ
            if (k == 1) r->ids[1] = r->ids[0] ^ 1;  // the class's second id projects to the same class key
#endif
            if (i < n && k < r->nids) {
                VERIF_ASSUME(r->ids[k] != invalid_type);
#ifdef IDBITS
                VERIF_ASSUME(r->ids[k] < (type_id(1) << IDBITS));  // bug-hunting restriction of the bit-precise re-run
#endif
                for (int j = 0; j < 2 * NCLS; j++) if (j < nall) VERIF_ASSUME(all[j] != r->ids[k]);
                all[nall++] = r->ids[k];
            }
        }
    }
#if MODE == 3
    // an earlier update registered one more class (record r3); the current one does not
    {
        r3.nids = 1; r3.ids[0] = nondet_u64();
        VERIF_ASSUME(r3.ids[0] != invalid_type);
        for (int j = 0; j < 2 * NCLS; j++) if (j < nall) VERIF_ASSUME(all[j] != r3.ids[0]);
        // records 0..n-1 then r3: iterate with an iterator that maps position NCLS to r3
        struct It2 : It { Rec& operator*() const { return i == NCLS ? r3 : *rec(i); } Rec* operator->() const { return i == NCLS ? &r3 : rec(i); } };
        It2 b2; b2.i = 0; It2 e2; e2.i = NCLS + 1;
        P::publish_vptrs(b2, e2);
    }
#endif
#if MODE == 4
    Q::publish_vptrs(It{0}, It{n});
    // Q's installed state, to be found unchanged after P's update
    type_id q_mult = Q::hash_mult; std::size_t q_shift = Q::hash_shift, q_length = Q::hash_length, q_vn = Q::vptrs.size();
    const std::uintptr_t* q_v[HASHCAP];
    for (unsigned i = 0; i < HASHCAP; i++) q_v[i] = i < q_vn ? Q::vptrs[i] : nullptr;
#if CHECKED
    std::size_t q_cn = Q::control.size(); type_id q_c[HASHCAP];
    for (unsigned i = 0; i < HASHCAP; i++) q_c[i] = i < q_cn ? Q::control[i] : 0;
#endif
#endif
    P::publish_vptrs(It{0}, It{n});
#if MODE == 4
    {
        bool same = Q::hash_mult == q_mult && Q::hash_shift == q_shift && Q::hash_length == q_length && Q::vptrs.size() == q_vn;
        for (unsigned i = 0; i < HASHCAP; i++) if (i < q_vn) same = same && Q::vptrs[i] == q_v[i];
#if CHECKED
        same = same && Q::control.size() == q_cn;
        for (unsigned i = 0; i < HASHCAP; i++) if (i < q_cn) same = same && Q::control[i] == q_c[i];
#endif
        verif_assert(same, 30);  // updating P changed Q's hash state
    }
#endif
    // normal return: installed hash is perfect on the registered ids
    verif_assert(got_hash_search_error == 0 && got_unknown_class == 0 && got_other_error == 0, 2);
    verif_assert(P::hash_length <= P::vptrs.size(), 3);
    type_id idx[2 * NCLS]; int nidx = 0;
    for (int i = 0; i < NCLS; i++) if (i < n) {
        Rec* r = rec(i);
        for (unsigned k = 0; k < 2; k++) if (k < r->nids) {
            type_id h = policy::fast_perfect_hash<P>::hash_type_id(r->ids[k]);
            verif_assert(h < P::hash_length, 4);
            if (h < P::vptrs.size()) verif_assert(P::vptrs[h] == r->vptr(), 5);
#if INDIRECT
            verif_assert(h < P::indirect_vptrs.size() && P::indirect_vptrs[h] == r->indirect_vptr(), 12);
#endif
            for (int j = 0; j < 2 * NCLS; j++) if (j < nidx) verif_assert(idx[j] != h, 6);
            idx[nidx++] = h;
#if CHECKED
            verif_assert(P::control.size() == P::hash_length, 7);
            if (h < P::control.size()) verif_assert(P::control[h] == r->ids[k], 8);
            verif_assert(P::hash_type_id(r->ids[k]) == h, 9);  // checked lookup accepts a registered id
#endif
            verif_out(h);
        }
    }
    verif_out(P::hash_length);
    if (n >= 2) VERIF_COVER(903);
#if MODE == 3
    // the id that only the earlier update knew
    lookup_id = r3.ids[0];
    in_lookup = true;
    {
        type_id h3 = P::hash_type_id(lookup_id);
        verif_out(h3);
        verif_assert(0, 10);   // an id that is no longer registered was accepted
    }
#endif
#if MODE == 2
    // arbitrary unregistered id
    lookup_id = nondet_u64();
    VERIF_ASSUME(lookup_id != invalid_type);
#ifdef IDBITS
    VERIF_ASSUME(lookup_id < (type_id(1) << IDBITS));
#endif
    for (int j = 0; j < 2 * NCLS; j++) if (j < nall) VERIF_ASSUME(all[j] != lookup_id);
    in_lookup = true;
    type_id h = P::hash_type_id(lookup_id);
    // must not get here: an unregistered id was mapped to index h
    verif_out(h);
    verif_assert(0, 10);
#endif
    VERIF_COVER(999);
}

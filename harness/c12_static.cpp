// C12(b): compile-time static offsets and their run-time cross-check (method::check_static_offset).
// A method has a static_offsets specialisation with CONSTANT slots / strides; the offsets installed by
// update (slots_strides) are ARBITRARY.  With a runtime_checks policy the call must report
// static_slot_error / static_stride_error and abort iff some position differs; with equal offsets it
// must return what the run-time walk returns.
#define VERIF_DEFINE_ABORT
#include "verif.hpp"
#include "caps_call.hpp"
#include <yorel/yomm2/core.hpp>
using namespace yorel::yomm2;

#ifndef ARITY
#define ARITY 2
#endif
#ifndef ROUTE
#define ROUTE 1   // 1: reference arguments, 2: virtual_ptr arguments
#endif

struct Obj { type_id type; virtual void poly() {} };
struct Animal : Obj {};
struct sym_rtti : policy::rtti {
    template<typename T> static type_id static_type() { return 1; }
    template<typename T> static type_id dynamic_type(const T& o) {
        if constexpr (std::is_base_of_v<Obj, T>) return o.type; else return 0;
    }
};
static int n_errors, n_slot, n_stride, n_other;
struct rec_error : virtual policy::error_handler {
    static void error(const error_type& e) {
        n_errors++;
        if (std::get_if<static_slot_error>(&e)) n_slot++;
        else if (std::get_if<static_stride_error>(&e)) n_stride++;
        else n_other++;
    }
};
struct checks_facet : virtual policy::runtime_checks {};
#if CHECKED
struct P : policy::basic_policy<P, sym_rtti, policy::vptr_vector<P>, checks_facet, rec_error> {};
#else
struct P : policy::basic_policy<P, sym_rtti, policy::vptr_vector<P>, rec_error> {};
#endif

struct key;
#if ROUTE == 1
#define VARG virtual_<Animal&>
#else
#define VARG virtual_ptr<Animal, P>
#endif
#if ARITY == 1
using meth = method<key, void(VARG), P>;
#elif ARITY == 2
using meth = method<key, void(VARG, int, VARG), P>;
#else
using meth = method<key, void(VARG, VARG, double, VARG), P>;
#endif

// generated-header constants (arbitrary but fixed): slots then strides
#define S0 1
#define S1 3
#define S2 2
#define T1 2
#define T2 4
template<>
struct yorel::yomm2::detail::static_offsets<meth> {
#if ARITY == 1
    static constexpr std::size_t slots[] = {S0};
#elif ARITY == 2
    static constexpr std::size_t slots[] = {S0, S1};
    static constexpr std::size_t strides[] = {T1};
#else
    static constexpr std::size_t slots[] = {S0, S1, S2};
    static constexpr std::size_t strides[] = {T1, T2};
#endif
};

#ifndef TWO_CALLS
#define TWO_CALLS 0
#endif
#define VSZ 4
#define TSZ 16
static std::uintptr_t vt[3][VSZ];
static std::uintptr_t table[TSZ];
static Animal objs[3];
static bool all_equal;

void verif_abort_hook() {
#if CHECKED
    // abort is legal only as the report of a mismatch
    verif_assert(!all_equal, 1);                                  // correctly generated offsets were rejected
    verif_assert(n_errors == 1 && n_other == 0 && n_slot + n_stride == 1, 2);
    VERIF_COVER(950);
#else
    verif_assert(0, 3);
#endif
    verif_out(n_slot); verif_out(n_stride);
}

static std::uintptr_t call_once() {
    int k = 3; double x = 0.5;
#if ROUTE == 1
#if ARITY == 1
    auto pf = meth::fn.resolve(objs[0]);
#elif ARITY == 2
    auto pf = meth::fn.resolve(objs[0], k, objs[1]);
#else
    auto pf = meth::fn.resolve(objs[0], objs[1], x, objs[2]);
#endif
#else
    P::static_vptr<Animal> = vt[0];  // objs[0] is an object of exactly the static type (id 1)
    virtual_ptr<Animal, P> p0(objs[0]), p1(objs[1]), p2(objs[2]);
#if ARITY == 1
    auto pf = meth::fn.resolve(p0);
#elif ARITY == 2
    auto pf = meth::fn.resolve(p0, k, p1);
#else
    auto pf = meth::fn.resolve(p0, p1, x, p2);
#endif
#endif
    return reinterpret_cast<std::uintptr_t>(pf);
}

extern "C" void cbmc_main() {
    ll2c_run_global_ctors();
    const std::size_t st[5] = {S0, S1, S2, T1, T2};
    // installed offsets: arbitrary
    std::size_t inst[2 * ARITY - 1];
    for (int i = 0; i < 2 * ARITY - 1; i++) { inst[i] = verif_range(0, 7); meth::fn.slots_strides[i] = inst[i]; }
    all_equal = true;
    for (int i = 0; i < ARITY; i++) if (inst[i] != st[i]) all_equal = false;
    for (int i = 0; i < ARITY - 1; i++) if (inst[ARITY + i] != st[3 + i]) all_equal = false;
    // tables laid out for the STATIC offsets (what the program was compiled with)
    std::size_t g[3];
    for (int p = 0; p < ARITY; p++) g[p] = verif_range(0, 1);
    for (int c = 0; c < 3; c++) for (int s = 0; s < VSZ; s++) vt[c][s] = 0;
    for (int i = 0; i < TSZ; i++) table[i] = 1000 + i;
    P::vptrs.resize(4);
    for (int p = 0; p < ARITY; p++) {
        objs[p].type = p + 1;
        P::vptrs[p + 1] = vt[p];
        if (ARITY == 1) vt[p][S0] = 77;
        else if (p == 0) vt[p][S0] = reinterpret_cast<std::uintptr_t>(&table[g[0]]);
        else vt[p][p == 1 ? S1 : S2] = g[p];
    }
    std::uintptr_t expected = ARITY == 1 ? 77 : ARITY == 2 ? table[g[0] + g[1] * T1] : table[g[0] + g[1] * T1 + g[2] * T2];
    std::uintptr_t pf = call_once();
    // returned normally
#if CHECKED
    verif_assert(all_equal, 4);   // wrong offsets were accepted
#endif
    verif_assert(pf == expected, 5);  // compiled-in offsets dispatch like the run-time ones
    verif_assert(n_errors == 0, 6);
    if (all_equal) VERIF_COVER(901);
    verif_out(all_equal);
#if TWO_CALLS
    // a later update installs other offsets (the registry changed): the very same call site must be judged again
    for (int i = 0; i < 2 * ARITY - 1; i++) { inst[i] = verif_range(0, 7); meth::fn.slots_strides[i] = inst[i]; }
    all_equal = true;
    for (int i = 0; i < ARITY; i++) if (inst[i] != st[i]) all_equal = false;
    for (int i = 0; i < ARITY - 1; i++) if (inst[ARITY + i] != st[3 + i]) all_equal = false;
    std::uintptr_t pf2 = call_once();
#if CHECKED
    verif_assert(all_equal, 4);   // offsets made stale by the later update were accepted
#endif
    verif_assert(pf2 == expected, 5);
    verif_assert(n_errors == 0, 6);
    verif_out(all_equal);
#endif
    VERIF_COVER(999);
}

// C18: registration catalogs (static_list and the self-registering objects).
// MODE 1: bounded history of push/remove/clear on static_list<class_info> (real node type).
// MODE 2: one inductive step from an arbitrary well-formed list (harness node type on the real template).
// MODE 3: bounded history of constructor / destructor driven registration:
//         class_declaration_aux, method<> instances, definition_info (via destructor), add_function idempotence.
#define VERIF_DEFINE_ABORT
#include "verif.hpp"
#include <new>
#include <yorel/yomm2/core.hpp>
void verif_abort_hook() {}
using namespace yorel::yomm2;
using namespace yorel::yomm2::detail;

#ifndef VK
#define VK 5
#endif
#define NN 4

// select a node by (possibly symbolic) index without symbolic pointer arithmetic
template<class Node>
static Node* pick(Node* const* nodes, int i) {
    return i == 0 ? nodes[0] : i == 1 ? nodes[1] : i == 2 ? nodes[2] : nodes[3];
}

template<class List, class Node>
static void compare(List& lst, Node* const* nodes, const int* model, int n, int idbase) {
    verif_assert(lst.empty() == (n == 0), idbase + 1);
    int i = 0;
    bool ok = true;
    for (auto& node : lst) {
        if (i >= n || &node != pick(nodes, model[i])) ok = false;
        i++;
        if (i > NN) break;
    }
    verif_assert(ok && i == n, idbase + 2);
    verif_assert(lst.size() == (std::size_t)n, idbase + 3);
    verif_out(n);
    for (int j = 0; j < n; j++) verif_out(model[j]);
}

static void model_remove(int* model, int& n, int x) {
    int j = 0;
    for (int i = 0; i < n; i++)
        if (model[i] != x) model[j++] = model[i];
    n = j;
}

#if MODE == 1
static class_info n0, n1, n2, n3;
static class_info* const nodes[NN] = {&n0, &n1, &n2, &n3};
static static_list<class_info> lst;
extern "C" void cbmc_main() {
    int model[NN];
    int n = 0;
    bool in[NN] = {false, false, false, false};
    for (int step = 0; step < VK; step++) {
        unsigned op = verif_range(0, 2), x = verif_range(0, NN - 1);
        if (op == 0) {
            VERIF_ASSUME(!in[x]);  // documented precondition: node not linked
            lst.push_back(*pick(nodes, x));
            model[n++] = x;
            in[x] = true;
        } else if (op == 1) {
            VERIF_ASSUME(in[x]);  // documented precondition: node is in this list
            lst.remove(*pick(nodes, x));
            model_remove(model, n, x);
            in[x] = false;
        } else {
            lst.clear();
            n = 0;
            for (int i = 0; i < NN; i++) in[i] = false;
        }
        compare(lst, nodes, model, n, 0);
    }
    VERIF_COVER(999);
}
#endif

#if MODE == 2
struct Node : static_list<Node>::static_link {
    void set(Node* p, Node* nx) { prev_ptr = p; next_ptr = nx; }
    Node* prev() const { return prev_ptr; }
    Node* nxt() const { return next_ptr; }
};
struct List : static_list<Node> {
    void set_first(Node* f) { first = f; }
    Node* get_first() const { return first; }
};
static Node m0, m1, m2, m3;
static Node* const nodes[NN] = {&m0, &m1, &m2, &m3};
static List lst;
extern "C" void cbmc_main() {
    // arbitrary well-formed pre-state: L nodes linked in an arbitrary order
    int model[NN];
    int n = (int)verif_range(0, NN);
    bool in[NN] = {false, false, false, false};
    for (int i = 0; i < NN; i++) {
        model[i] = (int)verif_range(0, NN - 1);
        if (i < n) {
            VERIF_ASSUME(!in[model[i]]);
            in[model[i]] = true;
        }
    }
    for (int i = 0; i < NN; i++) pick(nodes, i)->set(nullptr, nullptr);
    for (int i = 0; i < n; i++) {
        Node* prev = i == 0 ? pick(nodes, model[n - 1]) : pick(nodes, model[i - 1]);
        Node* next = i + 1 < n ? pick(nodes, model[i + 1]) : nullptr;
        pick(nodes, model[i])->set(prev, next);
    }
    lst.set_first(n ? pick(nodes, model[0]) : nullptr);
    // one arbitrary legal operation
    unsigned op = verif_range(0, 2), x = verif_range(0, NN - 1);
    if (op == 0) {
        VERIF_ASSUME(!in[x]);
        lst.push_back(*pick(nodes, x));
        model[n++] = x;
        in[x] = true;
        VERIF_COVER(901);
    } else if (op == 1) {
        VERIF_ASSUME(in[x]);
        lst.remove(*pick(nodes, x));
        model_remove(model, n, x);
        in[x] = false;
        VERIF_COVER(902);
    } else {
        lst.clear();
        n = 0;
        for (int i = 0; i < NN; i++) in[i] = false;
    }
    compare(lst, nodes, model, n, 0);
    // representation invariant re-established (so the step composes to histories of any length)
    for (int i = 0; i < NN; i++)
        if (!in[i]) verif_assert(pick(nodes, i)->prev() == nullptr && pick(nodes, i)->nxt() == nullptr, 4);
    if (n) {
        verif_assert(lst.get_first() == pick(nodes, model[0]), 5);
        verif_assert(pick(nodes, model[0])->prev() == pick(nodes, model[n - 1]), 6);
        verif_assert(pick(nodes, model[n - 1])->nxt() == nullptr, 7);
        for (int i = 1; i < n; i++) {
            verif_assert(pick(nodes, model[i])->prev() == pick(nodes, model[i - 1]), 8);
            verif_assert(pick(nodes, model[i - 1])->nxt() == pick(nodes, model[i]), 9);
        }
    } else {
        verif_assert(lst.get_first() == nullptr, 10);
    }
    VERIF_COVER(999);
}
#endif

#if MODE == 3
struct Obj {
    type_id type;
};
struct sym_rtti : policy::rtti {
    template<typename T>
    static type_id static_type() { return 0; }
    template<typename T>
    static type_id dynamic_type(const T&) { return 0; }
};
struct P : policy::basic_policy<P, sym_rtti> {};
struct A : Obj {};
struct B : Obj {};
struct C : Obj {};
using decl_a = class_declaration_aux<P, types<A>>;
using decl_b = class_declaration_aux<P, types<B>>;
using decl_c = class_declaration_aux<P, types<C>>;
struct key;
using meth = method<key, void(virtual_<Obj&>), P>;
static void def_fn(Obj&) {}

// typed raw storage (a union member is not constructed until placement new)
template<class T>
union raw {
    T v;
    raw() {}
    ~raw() {}
};
static raw<decl_a> ua;
static raw<decl_b> ub;
static raw<decl_c> uc;
static raw<meth> um0, um1;
static raw<definition_info> ud0, ud1, ud2;
#define sto_a (&ua.v)
#define sto_b (&ub.v)
#define sto_c (&uc.v)
static meth* sto_m(int i) { return i == 0 ? &um0.v : &um1.v; }
static definition_info* sto_d(int i) { return i == 0 ? &ud0.v : i == 1 ? &ud1.v : &ud2.v; }

extern "C" void cbmc_main() {
    ll2c_run_global_ctors();
    // after static construction the method catalog holds exactly meth::fn
    verif_assert(P::methods.size() == 1 && &*P::methods.begin() == &meth::fn, 20);
    verif_assert(P::classes.empty(), 21);
    class_info* cn[3] = {sto_a, sto_b, sto_c};
    bool cin[3] = {false, false, false};
    int cmodel[3], cn_n = 0;
    bool min_[2] = {false, false};
    int mmodel[3], mn = 0;  // -1 stands for meth::fn
    mmodel[mn++] = -1;
    bool din[3] = {false, false, false};
    int dmodel[3], dn = 0;
    for (int step = 0; step < VK; step++) {
        unsigned kind = verif_range(0, 2), x = verif_range(0, 2), ctor = verif_range(0, 1);
        if (kind == 0) {  // class registration objects
            if (ctor) {
                VERIF_ASSUME(!cin[x]);
                if (x == 0) new (sto_a) decl_a(); else if (x == 1) new (sto_b) decl_b(); else new (sto_c) decl_c();
                cmodel[cn_n++] = x; cin[x] = true;
            } else {
                VERIF_ASSUME(cin[x]);
                if (x == 0) sto_a->~decl_a();
                else if (x == 1) sto_b->~decl_b();
                else sto_c->~decl_c();
                model_remove(cmodel, cn_n, x); cin[x] = false;
            }
        } else if (kind == 1) {  // extra method objects
            VERIF_ASSUME(x < 2);
            if (ctor) {
                VERIF_ASSUME(!min_[x]);
                new (sto_m(x)) meth();
                mmodel[mn++] = x; min_[x] = true;
            } else {
                VERIF_ASSUME(min_[x]);
                sto_m(x)->~meth();
                model_remove(mmodel, mn, x); min_[x] = false;
            }
        } else {  // definitions of meth::fn, removed by their destructor
            if (ctor) {
                VERIF_ASSUME(!din[x]);
                auto* d = new (sto_d(x)) definition_info();
                d->method = &meth::fn;
                meth::fn.specs.push_back(*d);
                dmodel[dn++] = x; din[x] = true;
            } else {
                VERIF_ASSUME(din[x]);
                sto_d(x)->~definition_info();
                model_remove(dmodel, dn, x); din[x] = false;
            }
        }
        // classes catalog
        {
            int i = 0; bool ok = true;
            for (auto& node : P::classes) { if (i >= cn_n || &node != (cmodel[i] == 0 ? cn[0] : cmodel[i] == 1 ? cn[1] : cn[2])) ok = false; if (++i > 3) break; }
            verif_assert(ok && i == cn_n, 22);
            verif_assert(P::classes.size() == (std::size_t)cn_n && P::classes.empty() == (cn_n == 0), 23);
        }
        {
            int i = 0; bool ok = true;
            for (auto& node : P::methods) {
                method_info* want = i < mn ? (mmodel[i] < 0 ? static_cast<method_info*>(&meth::fn) : static_cast<method_info*>(sto_m(mmodel[i]))) : nullptr;
                if (&node != want) ok = false;
                if (++i > 3) break;
            }
            verif_assert(ok && i == mn, 24);
            verif_assert(P::methods.size() == (std::size_t)mn, 25);
        }
        {
            int i = 0; bool ok = true;
            for (auto& node : meth::fn.specs) { if (i >= dn || &node != sto_d(dmodel[i])) ok = false; if (++i > 3) break; }
            verif_assert(ok && i == dn, 26);
            verif_assert(meth::fn.specs.size() == (std::size_t)dn && meth::fn.specs.empty() == (dn == 0), 27);
        }
        verif_out(cn_n); verif_out(mn); verif_out(dn);
    }
    // idempotent definition registration through the public front end
    {
        auto count = []() { int n = 0; for (auto& node : meth::fn.specs) { (void)node; if (++n > 5) break; } return n; };  // bounded (at most 4 legitimate nodes): a corrupted list may be cyclic
        int before = count();
        meth::add_function<def_fn> r1;
        int after1 = count();
        meth::add_function<def_fn> r2;   // the same definition again (e.g. from another translation unit): must be ignored
        meth::add_function<def_fn> r3;
        verif_assert(after1 == before + 1 && count() == before + 1, 28);
    }
    VERIF_COVER(999);
}
#endif

// Common interface between harnesses, CBMC (through ll2c) and the native
// replay / differential-test runtime.  Included first by every harness.
#ifndef VERIF_HPP
#define VERIF_HPP
#include <cstddef>
#include <cstdint>
#include <cstdlib>

extern "C" {
void __CPROVER_assume(int);
// property assertion; ids >= 900 are reachability witnesses (must FAIL)
void verif_assert(int cond, int id);
// observable value: printed by native / gcc-translated builds, no-op in CBMC.
void verif_out(unsigned long v);
void ll2c_run_global_ctors(void);
unsigned long nondet_u64(void);
unsigned nondet_u32(void);
// value in [lo, hi]; recorded like the other nondet_* for replay
unsigned long nondet_range(unsigned long lo, unsigned long hi);
// ends the current path (CBMC: assume(0); native: prints END-PATH, exit 0)
void verif_end_path(void);
}

#define VERIF_ASSUME(c) __CPROVER_assume(!!(c))
#define VERIF_COVER(id) verif_assert(0, id)

// yomm2 calls abort(); the macro below (defined after <cstdlib> and the other
// std headers have been seen, libstdc++ #undefs it inside <cstdlib>) makes the
// call land in verif_abort.  The harness defines verif_abort_hook() (may be
// empty) to observe / assert at abort time.
#include <boost/config.hpp>
#include <algorithm>
#include <functional>
#include <memory>
#include <string_view>
#include <variant>
#include <vector>
extern "C" [[noreturn]] void verif_abort(void);
#define abort verif_abort
void verif_abort_hook();
extern "C" int verif_aborted;
#ifdef VERIF_DEFINE_ABORT
extern "C" int verif_aborted = 0;
extern "C" void verif_abort(void) {
    verif_aborted = 1;
    verif_abort_hook();
    verif_end_path();
    __builtin_unreachable();
}
#endif

static inline std::uint64_t verif_range(std::uint64_t lo, std::uint64_t hi) {
    return nondet_range(lo, hi);
}

#endif

// Common interface between harnesses, CBMC (through ll2c) and the native
// replay / differential-test runtime.  Included first by every harness.
#ifndef VERIF_HPP
#define VERIF_HPP
#include <cstddef>
#include <cstdint>
#include <cstdlib>

extern "C" {
void __CPROVER_assume(int);
// property assertion; ids >= 900 are reachability witnesses (must FAIL)
void verif_assert(int cond, int id);
// observable value: printed by native / gcc-translated builds, no-op in CBMC.
void verif_out(unsigned long v);
void ll2c_run_global_ctors(void);
unsigned long nondet_u64(void);
unsigned nondet_u32(void);
// value in [lo, hi]; recorded like the other nondet_* for replay
unsigned long nondet_range(unsigned long lo, unsigned long hi);
// ends the current path (CBMC: assume(0); native: prints END-PATH, exit 0)
void verif_end_path(void);
}

#define VERIF_ASSUME(c) __CPROVER_assume(!!(c))
#define VERIF_COVER(id) verif_assert(0, id)

// yomm2 calls abort(); the macro below (defined after <cstdlib> and the other
// std headers have been seen, libstdc++ #undefs it inside <cstdlib>) makes the
// call land in verif_abort.  The harness defines verif_abort_hook() (may be
// empty) to observe / assert at abort time.
#include <boost/config.hpp>
#include <algorithm>
#include <functional>
#include <memory>
#include <string_view>
#include <variant>
#include <vector>
extern "C" [[noreturn]] void verif_abort(void);
#define abort verif_abort
void verif_abort_hook();
extern "C" int verif_aborted;
#if defined(VERIF_DEFINE_ABORT) && defined(VERIF_CBMC)
// out-of-line libstdc++ throw helpers reached from header code (IR build has no libstdc++.so):
// reaching one is reported (ids 90xx) and ends the path
namespace std {
void __throw_bad_function_call() { verif_assert(0, 9004); verif_end_path(); __builtin_unreachable(); }
void __throw_length_error(const char*) { verif_assert(0, 9002); verif_end_path(); __builtin_unreachable(); }
void __throw_bad_alloc() { verif_assert(0, 9001); verif_end_path(); __builtin_unreachable(); }
void __throw_bad_array_new_length() { verif_assert(0, 9003); verif_end_path(); __builtin_unreachable(); }
void __throw_out_of_range_fmt(const char*, ...) { verif_assert(0, 9006); verif_end_path(); __builtin_unreachable(); }
void __throw_logic_error(const char*) { verif_assert(0, 9007); verif_end_path(); __builtin_unreachable(); }
}
void* operator new(std::size_t n) { void* p = std::malloc(n); __CPROVER_assume(p != nullptr); return p; }
void operator delete(void*) noexcept {}
void operator delete(void*, std::size_t) noexcept {}
#endif
#ifdef VERIF_DEFINE_ABORT
extern "C" int verif_aborted = 0;
extern "C" void verif_abort(void) {
    verif_aborted = 1;
    verif_abort_hook();
    verif_end_path();
    __builtin_unreachable();
}
#endif

static inline std::uint64_t verif_range(std::uint64_t lo, std::uint64_t hi) {
    return nondet_range(lo, hi);
}

#endif

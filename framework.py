#!/usr/bin/env python3
"""Solver-based checking framework for jll63/yomm2 (see DESIGN.md §1).

Pipeline per query:  harness.cpp (+ real yomm2 headers from /repo's working tree)
  -> clang++-14 -O1 -S -emit-llvm -> tools/ll2c.py -> C -> cbmc (bounded, all
  properties, trace) ; the same harness is also built natively (g++, real
  libstdc++ / boost) and the generated C is built with gcc: both are run on the
  same inputs (differential test of translator + models) and every CBMC
  counterexample / witness is replayed on the native build.
"""
import concurrent.futures as cf
import hashlib
import json
import os
import re
import shutil
import subprocess
import sys
import tempfile
import time

VERIF = os.path.dirname(os.path.abspath(__file__))
REPO = os.environ.get('VERIF_REPO', '/repo')
GUARD = 'YOMM2_VERIF'
LL2C = os.path.join(VERIF, 'tools', 'll2c.py')
NATIVE_RT = os.path.join(VERIF, 'tools', 'native_rt.c')
HARNESS_DIR = os.path.join(VERIF, 'harness')
MODELS_DIR = os.path.join(VERIF, 'models')

CLANG_FLAGS = ['-std=c++17', '-O1', '-fno-vectorize', '-fno-slp-vectorize', '-fno-unroll-loops', '-fno-exceptions',
               '-fno-builtin', '-mllvm', '-disable-loop-idiom-all', '-mllvm', '-simplifycfg-sink-common=false',
               '-fno-discard-value-names', '-fno-threadsafe-statics', '-DBOOST_NO_EXCEPTIONS',
               '-D' + GUARD, '-Wno-everything']
NATIVE_FLAGS = ['-std=c++17', '-O1', '-g', '-D' + GUARD, '-DVERIF_NATIVE', '-w']

CBMC_BASE = ['--function', 'cbmc_main', '--unwinding-assertions', '--drop-unused-functions', '--trace',
             '--no-malloc-may-fail', '--object-bits', '12', '--verbosity', '8']


class Query:
    """One CBMC query (one verification condition set) on one harness configuration."""

    def __init__(self, name, harness, defines=None, unwind=8, unwindset=None, models=False, ndebug=True,
                 checks='none', covers=(999,), timeout=600, mem_gb=16, diff_random=6, diff_inputs=(),
                 extra_cbmc=(), extra_clang=(), rtti=False, desc='', known=None, sat=None, symbolic='',
                 bounds=None, expect_fail=(), exceptions_native=False, env=False, uf_mul=False, precise_defines=None, precise_sat=None, gen_files=None, meta=None, only_asserts=None):
        self.name = name
        self.harness = harness
        self.defines = dict(defines or {})
        self.unwind = unwind
        self.unwindset = unwindset
        self.models = models
        self.ndebug = ndebug
        self.checks = checks          # 'none' | 'memory' | 'all'
        self.covers = tuple(covers)
        self.timeout = int(os.environ.get('VERIF_TIMEOUT', timeout))
        self.mem_gb = mem_gb
        self.diff_random = diff_random
        self.diff_inputs = list(diff_inputs)
        self.extra_cbmc = list(extra_cbmc)
        self.extra_clang = list(extra_clang)
        self.rtti = rtti
        self.desc = desc
        self.known = known or {}      # assert id -> known-finding key expected to fail (dedicated queries)
        self.sat = sat
        self.symbolic = symbolic
        self.bounds = bounds or {}
        self.expect_fail = tuple(expect_fail)
        self.env = env
        self.uf_mul = uf_mul
        self.precise_defines = dict(precise_defines or {})
        self.precise_sat = precise_sat
        self.gen_files = dict(gen_files or {})
        self.meta = meta
        self.only_asserts = set(only_asserts) if only_asserts else None

    def dflags(self):
        return ['-D%s=%s' % (k, v) if v is not None else '-D%s' % k for k, v in sorted(self.defines.items())]


def sh(cmd, timeout=None, cwd=None, env=None, stdout=subprocess.PIPE, stderr=subprocess.STDOUT):
    """Run a command in its own process group; on timeout the whole group is killed (no orphaned solvers)."""
    import signal
    t0 = time.time()
    p = subprocess.Popen(cmd, stdout=stdout, stderr=stderr, cwd=cwd, env=env, start_new_session=True)
    try:
        out, _ = p.communicate(timeout=timeout)
        return p.returncode, (out.decode('utf-8', 'replace') if out is not None else ''), time.time() - t0
    except subprocess.TimeoutExpired:
        try:
            os.killpg(p.pid, signal.SIGKILL)
        except ProcessLookupError:
            pass
        try:
            out, _ = p.communicate(timeout=10)
        except Exception:
            out = b''
        return -9, (out.decode('utf-8', 'replace') if out else ''), time.time() - t0
    except BaseException:
        try:
            os.killpg(p.pid, signal.SIGKILL)
        except ProcessLookupError:
            pass
        raise


class Inconclusive(Exception):
    pass


def build(q, wd):
    """clang -> IR -> C ; native and translated executables.  Returns dict of paths + timings."""
    os.makedirs(wd, exist_ok=True)
    src = os.path.join(HARNESS_DIR, q.harness)
    inc = ['-I', HARNESS_DIR]
    for fn, text in q.gen_files.items():
        open(os.path.join(wd, fn), 'w').write(text)
    if q.gen_files:
        inc = ['-I', wd] + inc
    if q.env:
        inc = ['-I', os.path.join(VERIF, 'models_env')] + inc
    model_inc = ['-I', MODELS_DIR] if q.models else []
    repo_inc = ['-I', os.path.join(REPO, 'include')]
    nd = ['-DNDEBUG'] if q.ndebug else []
    rtti = [] if q.rtti else ['-fno-rtti', '-DBOOST_NO_RTTI']
    ll = os.path.join(wd, 'h.ll')
    cfile = os.path.join(wd, 'h.c')
    info = {'wd': wd}
    cmd = ['clang++-14'] + CLANG_FLAGS + nd + rtti + model_inc + inc + repo_inc + q.dflags() + q.extra_clang + \
          ['-DVERIF_CBMC', '-S', '-emit-llvm', src, '-o', ll]
    rc, out, dt = sh(cmd, timeout=600)
    info['clang_s'] = round(dt, 2)
    if rc != 0:
        raise Inconclusive('clang failed for %s:\n%s' % (q.name, out[-3000:]))
    ll2c_env = dict(os.environ)
    if q.uf_mul:
        ll2c_env['LL2C_UF_MUL'] = '1'
    rc, out, dt = sh([sys.executable, LL2C, ll, '-o', cfile], timeout=600, env=ll2c_env)
    info['ll2c_s'] = round(dt, 2)
    if rc != 0:
        raise Inconclusive('ll2c failed for %s:\n%s' % (q.name, out[-3000:]))
    info['ir_lines'] = sum(1 for _ in open(ll))
    info['c_lines'] = sum(1 for _ in open(cfile))
    # translated executable (gcc on the C that CBMC sees)
    exe_t = os.path.join(wd, 'exe_t')
    rc, out, dt = sh(['gcc', '-O1', '-w', '-DTRANSLATED', '-fno-strict-aliasing', '-fwrapv', cfile, NATIVE_RT, '-o', exe_t, '-lstdc++', '-lm'], timeout=600)
    if rc != 0:
        raise Inconclusive('gcc on translated C failed for %s:\n%s' % (q.name, out[-3000:]))
    # native executable: real std containers, real boost, g++
    exe_n = os.path.join(wd, 'exe_n')
    rt_o = os.path.join(wd, 'native_rt.o')
    rc, out, dt = sh(['gcc', '-O1', '-w', '-c', NATIVE_RT, '-o', rt_o], timeout=120)
    if rc != 0:
        raise Inconclusive('gcc native_rt failed:\n' + out[-2000:])
    nrtti = [] if q.rtti else ['-fno-rtti', '-DBOOST_NO_RTTI']
    cmd = ['g++'] + NATIVE_FLAGS + nd + nrtti + inc + repo_inc + q.dflags() + [x for x in q.extra_clang if x.startswith('-D') and 'GLIBCXX' not in x] + [src, rt_o, '-o', exe_n]
    rc, out, dt = sh(cmd, timeout=600)
    info['native_build_s'] = round(dt, 2)
    if rc != 0:
        raise Inconclusive('native g++ build failed for %s:\n%s' % (q.name, out[-3000:]))
    info.update(ll=ll, c=cfile, exe_t=exe_t, exe_n=exe_n)
    return info


def run_exe(exe, mode, arg, timeout=60):
    rc, out, dt = sh([exe, mode, str(arg)], timeout=timeout, stderr=subprocess.DEVNULL)
    return rc, out


def differential(q, info, seed):
    """Run native and translated builds on the same inputs; compare outputs."""
    n = 0
    nontrivial = 0
    samples = []
    runs = [('random', seed * 1000 + i) for i in range(q.diff_random)]
    for i, vals in enumerate(q.diff_inputs):
        f = os.path.join(info['wd'], 'diff_%d.in' % i)
        open(f, 'w').write('\n'.join(str(v) for v in vals) + '\n')
        runs.append(('replay', f))
    for mode, arg in runs:
        rn, on = run_exe(info['exe_n'], mode, arg)
        rt, ot = run_exe(info['exe_t'], mode, arg)
        n += 1
        if on != ot or rn != rt:
            raise Inconclusive('translator/model differential mismatch on %s (%s %s):\n--- native rc=%s\n%s\n--- translated rc=%s\n%s'
                               % (q.name, mode, arg, rn, on[-1500:], rt, ot[-1500:]))
        if 'ASSUME-FAIL' not in on:
            nontrivial += 1
            if len(samples) < 2:
                samples.append({'mode': mode, 'arg': str(arg), 'output': on.split('\n')[:8]})
    return {'runs': n, 'reached_end': nontrivial, 'samples': samples}


RES_RE = re.compile(r'^\[(\S+)\] (?:line \d+ )?(.*): (SUCCESS|FAILURE|UNKNOWN|ERROR)$')


def parse_cbmc(out):
    props = {}
    traces = {}
    cur = None
    stats = {}
    for line in out.split('\n'):
        m = RES_RE.match(line)
        if m:
            props[m.group(1)] = (m.group(2), m.group(3))
            cur = None
            continue
        if line.startswith('Trace for '):
            cur = line[len('Trace for '):].rstrip(':').strip()
            traces[cur] = []
            continue
        if line.startswith('** '):
            cur = None
        if cur is not None:
            traces[cur].append(line)
            continue
        m = re.match(r'size of program expression: (\d+) steps', line)
        if m: stats['steps'] = int(m.group(1))
        m = re.match(r'Generated (\d+) VCC\(s\), (\d+) remaining after simplification', line)
        if m: stats['vccs'] = int(m.group(1)); stats['vccs_remaining'] = int(m.group(2))
        m = re.match(r'(\d+) variables, (\d+) clauses', line)
        if m: stats['sat_vars'] = int(m.group(1)); stats['sat_clauses'] = int(m.group(2))
        m = re.match(r'Runtime Symex: ([\d.e+-]+)s', line)
        if m: stats['symex_s'] = float(m.group(1))
        m = re.match(r'Runtime Solver: ([\d.e+-]+)s', line)
        if m: stats['solver_s'] = round(stats.get('solver_s', 0) + float(m.group(1)), 3); stats['solver_calls'] = stats.get('solver_calls', 0) + 1
        m = re.match(r'Runtime decision procedure: ([\d.e+-]+)s', line)
        if m: stats['decision_s'] = float(m.group(1))
    verdict = None
    if 'VERIFICATION SUCCESSFUL' in out: verdict = 'SUCCESSFUL'
    elif 'VERIFICATION FAILED' in out: verdict = 'FAILED'
    return props, traces, stats, verdict


IN_RE = re.compile(r'^\s*ll2c_in\[(\d+)l?\]=(\d+)')


def trace_inputs(lines):
    vals = {}
    for l in lines:
        m = IN_RE.match(l)
        if m:
            vals[int(m.group(1))] = int(m.group(2))
    if not vals:
        return []
    return [vals.get(i, 0) for i in range(max(vals) + 1)]


def cbmc_flags(q):
    fl = list(CBMC_BASE)
    fl += ['--unwind', str(q.unwind)]
    if q.unwindset:
        fl += ['--unwindset', q.unwindset]
    if q.checks == 'none':
        fl += ['--no-standard-checks']
    elif q.checks == 'memory':
        fl += ['--no-standard-checks', '--bounds-check', '--pointer-check']
    elif q.checks == 'all':
        fl += ['--pointer-overflow-check', '--signed-overflow-check']
    if q.sat == 'kissat':
        fl += ['--external-sat-solver', 'kissat']
    elif q.sat:
        fl += ['--sat-solver', q.sat]
    fl += q.extra_cbmc
    return fl


def _run_query_once(q, root, seed):
    """Build, differential-test, model-check and replay one query. Returns a result dict."""
    t0 = time.time()
    wd = os.path.join(root, re.sub(r'\W', '_', q.name))
    res = {'query': q.name, 'harness': q.harness, 'defines': q.defines, 'unwind': q.unwind, 'status': 'error',
           'violations': [], 'known': [], 'notes': [], 'desc': q.desc, 'symbolic': q.symbolic, 'bounds': q.bounds}
    try:
        info = build(q, wd)
        res['build'] = {k: info[k] for k in ('clang_s', 'll2c_s', 'native_build_s', 'ir_lines', 'c_lines')}
        res['differential'] = differential(q, info, seed)
        fl = cbmc_flags(q)
        cmd = ['bash', '-c', 'ulimit -v %d; exec /usr/bin/time -f "RSS_KB=%%M" cbmc "$@"' % (q.mem_gb * 1024 * 1024), 'cbmc', info['c']] + fl
        res['cbmc_cmd'] = 'cbmc h.c ' + ' '.join(fl)
        log = os.path.join(wd, 'cbmc.log')
        with open(log, 'wb') as lf:
            rc, _, dt = sh(cmd, timeout=q.timeout, stdout=lf)
        out = open(log, errors='replace').read()
        res['cbmc_wall_s'] = round(dt, 2)
        m = re.search(r'RSS_KB=(\d+)', out)
        if m: res['rss_mb'] = int(m.group(1)) // 1024
        if rc == -9:
            raise Inconclusive('cbmc timeout after %ds on %s' % (q.timeout, q.name))
        props, traces, stats, verdict = parse_cbmc(out)
        res['stats'] = stats
        if verdict is None:
            raise Inconclusive('cbmc gave no verdict on %s (rc=%s):\n%s' % (q.name, rc, out[-2500:]))
        res['functions_encoded'] = sorted(set(re.findall(r'^\[([A-Za-z_]\w*)\.', out, re.M)))[:400]
        n_ok = n_fail = 0
        fails = []
        for pid, (desc, st) in props.items():
            if st == 'SUCCESS': n_ok += 1
            else:
                n_fail += 1
                fails.append((pid, desc, st))
        res['properties_checked'] = len(props)
        res['properties_success'] = n_ok
        # classify failures
        cover_hit = set()
        for pid, desc, st in fails:
            m = re.match(r'verif_assert (\d+)$', desc)
            if m:
                aid = int(m.group(1))
                tr = trace_inputs(traces.get(pid, []))
                rf = os.path.join(wd, 'replay_%d_%s.in' % (aid, re.sub(r'\W', '_', pid)[-30:]))
                open(rf, 'w').write('# query %s property %s (%s)\n' % (q.name, pid, desc) + '\n'.join(str(v) for v in tr) + '\n')
                rn, on = run_exe(info['exe_n'], 'replay', rf)
                reproduced = ('ASSERT-FAIL %d' % aid) in on.split('\n')
                if not reproduced and q.uf_mul and aid < 900:
                    # counterexample of the abstract model (uninterpreted multiplication): concretise it by keeping its
                    # structural choices and re-drawing the wide values (ids, multipliers) until the native build fails too
                    import random
                    rnd = random.Random(seed * 7919 + aid)
                    for attempt in range(400):
                        # equal wide values stay equal (one fresh value per distinct original value)
                        remap = {}
                        for v in tr:
                            if v > (1 << 20) and v not in remap:
                                remap[v] = rnd.getrandbits(64) if rnd.random() < 0.7 else rnd.getrandbits(rnd.choice((4, 8, 16, 40)))
                        tr2 = [remap.get(v, v) for v in tr]
                        rf2 = rf + '.c%d' % attempt
                        open(rf2, 'w').write('# query %s property %s (%s), concretised from the abstract counterexample\n' % (q.name, pid, desc) + '\n'.join(str(v) for v in tr2) + '\n')
                        rn2, on2 = run_exe(info['exe_n'], 'replay', rf2)
                        if ('ASSERT-FAIL %d' % aid) in on2.split('\n'):
                            reproduced, tr, rf, on = True, tr2, rf2, on2
                            res['notes'].append('assert %d: abstract counterexample concretised after %d native re-draws' % (aid, attempt + 1))
                            break
                        os.unlink(rf2)
                if aid >= 900:
                    if aid in q.covers:
                        if q.uf_mul and not reproduced:
                            # witness found under the multiplication abstraction: its concrete products differ, so it cannot
                            # be replayed; reachability in the abstract model is what is recorded
                            cover_hit.add(aid)
                            res.setdefault('witness_samples', []).append({'cover': aid, 'inputs': tr[:40], 'native_output': ['(abstract-model witness, not replayable)']})
                        elif reproduced:
                            cover_hit.add(aid)
                            res.setdefault('witness_samples', []).append({'cover': aid, 'inputs': tr[:40], 'native_output': on.split('\n')[:6]})
                        else:
                            res['notes'].append('witness %d not reproduced natively: %s' % (aid, on[-300:]))
                    continue
                if q.only_asserts is not None and aid < 8000 and aid not in q.only_asserts:
                    res.setdefault('other_property_failures', []).append(aid)  # belongs to another property's check of the same harness
                    continue
                if aid >= 8000:
                    raise Inconclusive('bound exceeded or library throw helper reached (assert id %d) in %s' % (aid, q.name))
                v = {'assert_id': aid, 'cbmc_property': pid, 'inputs': tr[:64], 'replay_file': rf,
                     'reproduced_natively': reproduced, 'native_output': on.split('\n')[-8:]}
                if reproduced:
                    res['violations'].append(v)
                else:
                    res['notes'].append('counterexample for assert %d NOT reproduced natively' % aid)
                    res.setdefault('unreproduced', []).append(v)
            elif 'unwinding assertion' in desc or 'recursion unwinding' in desc:
                raise Inconclusive('unwinding bound too small in %s: %s %s' % (q.name, pid, desc))
            else:
                tr = trace_inputs(traces.get(pid, []))
                res.setdefault('check_failures', []).append({'cbmc_property': pid, 'desc': desc, 'inputs': tr[:64]})
        missing = [c for c in q.covers if c not in cover_hit]
        if missing and res['violations'] and not res.get('unreproduced'):
            # a natively reproduced violation that ends the path (abort, out-of-structure access) legitimately hides the witnesses
            res['notes'].append('witness assertion(s) %s not reached: the reproduced violation ends the path first' % missing)
        elif missing:
            raise Inconclusive('vacuity: witness assertion(s) %s not reachable/reproduced in %s' % (missing, q.name))
        if res.get('unreproduced'):
            res['status'] = 'inconclusive'
            res['notes'].append('encoding problem: solver counterexample does not reproduce on the native build')
        elif res.get('check_failures') and q.checks != 'none':
            res['status'] = 'check-failure'
        elif res['violations']:
            res['status'] = 'violation'
        else:
            res['status'] = 'pass'
    except Inconclusive as e:
        res['status'] = 'inconclusive'
        res['notes'].append(str(e))
    except Exception as e:  # framework bug: never green
        res['status'] = 'error'
        res['notes'].append('framework exception: %r' % (e,))
    res['wall_s'] = round(time.time() - t0, 2)
    return res


def run_query(q, root, seed):
    """Abstraction refinement for uf_mul queries: a proof with 64x64 multiplication as an uninterpreted function holds
    for the real multiplication too; a failure under the abstraction is re-decided with the precise bit-level encoding."""
    r = _run_query_once(q, root, seed)
    if q.uf_mul and (r.get('unreproduced') or r['status'] == 'check-failure'):
        import copy
        q2 = copy.copy(q)
        q2.uf_mul = False
        q2.name = q.name + '__precise'
        q2.defines = dict(q.defines); q2.defines.update(q.precise_defines)
        if q.precise_sat: q2.sat = q.precise_sat
        r2 = _run_query_once(q2, root, seed)
        r2['query'] = q.name
        if q.precise_defines and r2['status'] == 'pass':
            r2['status'] = 'inconclusive'
            r2['notes'].append('abstract run failed and the bit-precise re-run (restricted by %s) found no concrete counterexample' % q.precise_defines)
        r2['notes'].insert(0, 'abstract (uninterpreted multiplication) run failed; re-decided with precise multiplication')
        r2['abstract_run'] = {k: r.get(k) for k in ('status', 'stats', 'cbmc_wall_s')}
        return r2
    if q.uf_mul:
        r['notes'].append('64x64 multiplications abstracted as an uninterpreted function (sound for proofs)')
    return r


def load_known(pid):
    """known_findings.txt: lines 'finding: property=<id> key=<query>:<assert> <text>' / 'fixed: ...'"""
    path = os.path.join(VERIF, 'known_findings.txt')
    out = {}
    if os.path.exists(path):
        for line in open(path):
            line = line.strip()
            m = re.match(r'finding: property=(\S+) key=(\S+) (.*)$', line)
            if m and m.group(1) == pid:
                out[m.group(2)] = m.group(3)
    return out


def run_property(pid, tier, queries, level='model_checking', assumptions=(), trusted=(), workers=None, keep=False, partial=False, extra=None):
    """Run all queries of a property; write evidence; print VIOLATION / KNOWN-FINDING lines; return exit code."""
    t0 = time.time()
    seed = int(os.environ.get('VERIF_SEED', '1') or 1)
    scratch_parent = os.environ.get('VERIF_SCRATCH') or None
    root = tempfile.mkdtemp(prefix='verif_%s_' % pid, dir=scratch_parent)
    known = load_known(pid)
    workers = workers or min(16, max(1, len(queries)))
    results = []
    with cf.ThreadPoolExecutor(max_workers=workers) as ex:
        futs = {ex.submit(run_query, q, root, seed): q for q in queries}
        for f in cf.as_completed(futs):
            r = f.result()
            results.append(r)
            print('  [%s] %-40s %-13s %6.1fs  props %s/%s  %s' % (
                pid, r['query'], r['status'], r['wall_s'], r.get('properties_success', '-'), r.get('properties_checked', '-'),
                '; '.join(n.split('\n')[0][:160] for n in r['notes'])), flush=True)
    if extra and not partial:
        for r in extra(tier, root):
            results.append(r)
            print('  [%s] %-40s %-13s %6.1fs  %s' % (pid, r['query'], r['status'], r.get('wall_s', 0), '; '.join(r.get('notes', []))[:200]), flush=True)
    results.sort(key=lambda r: r['query'])
    replay_dir = os.path.join(VERIF, 'replays', pid)
    violations = []
    known_hits = []
    inconclusive = []
    for r in results:
        if r['status'] in ('inconclusive', 'error'):
            inconclusive.append(r)
        for v in r['violations']:
            key = '%s:%s' % (r['query'], v['assert_id'])
            if key in known:
                known_hits.append((key, known[key]))
                continue
            os.makedirs(replay_dir, exist_ok=True)
            dst = os.path.join(replay_dir, '%s_%s.in' % (re.sub(r'\W', '_', r['query']), re.sub(r'\W', '_', str(v['assert_id']))[:40]))
            shutil.copy(v['replay_file'], dst)
            with open(dst, 'a') as f:
                f.write('# replay: python3 runner.py %s --replay %s --query %s\n' % (pid, dst, r['query']))
            v['replay_file'] = dst
            violations.append((r, v))
        if r['status'] == 'check-failure':
            for c in r.get('check_failures', []):
                key = '%s:%s' % (r['query'], c['desc'][:40])
                os.makedirs(replay_dir, exist_ok=True)
                dst = os.path.join(replay_dir, '%s_check.in' % re.sub(r'\W', '_', r['query']))
                open(dst, 'w').write('# %s\n' % c['desc'] + '\n'.join(str(x) for x in c['inputs']) + '\n')
                violations.append((r, {'assert_id': c['desc'], 'replay_file': dst, 'inputs': c['inputs']}))
    # known findings that were expected by a dedicated query but did not fail any more are simply not printed.
    for key, text in sorted(set(known_hits)):
        print('KNOWN-FINDING: property=%s %s (%s)' % (pid, text, key))
    for r, v in violations:
        print('VIOLATION property=%s replay=%s' % (pid, v['replay_file']))
        print('  query=%s assert=%s inputs=%s' % (r['query'], v['assert_id'], v.get('inputs', [])[:24]))
    for r in inconclusive:
        print('INCONCLUSIVE property=%s query=%s: %s' % (pid, r['query'], ' | '.join(r['notes'])[:1500]))
    # evidence
    n_eval = len(results)
    nontrivial = [r for r in results if r['status'] in ('pass', 'violation', 'check-failure') and r.get('stats', {}).get('vccs_remaining', 0) > 0]
    samples = []
    for r in results[:]:
        if r.get('witness_samples'):
            samples.append({'query': r['query'], 'what': r['desc'], 'witness_inputs_from_solver': r['witness_samples'][0]['inputs'],
                            'native_replay_output': r['witness_samples'][0]['native_output']})
        if len(samples) >= 4: break
    if not samples:
        samples = [{'query': r['query'], 'status': r['status']} for r in results[:2]]
    funcs = sorted({f for r in results for f in r.get('functions_encoded', [])})
    ev = {
        'property_id': pid, 'tier': tier, 'seed': seed, 'level': level,
        'coverage': {
            'evaluations': n_eval,
            'distinct_nontrivial': len({r['query'] for r in nontrivial}),
            'rule': 'one evaluation = one CBMC query (bounded symbolic execution of the real yomm2 code lowered by clang-14 -O1 and '
                    'translated by tools/ll2c.py, all properties mode). distinct = distinct (harness, configuration) pairs; non-trivial = '
                    'CBMC left at least one verification condition for the SAT solver after simplification and reached a verdict.',
            'samples': samples,
            'traces_validated_against_impl': sum(r.get('differential', {}).get('runs', 0) for r in results) + sum(len(r.get('witness_samples', [])) for r in results),
            'obligations': sum(r.get('properties_checked', 0) for r in results),
            'discharged': sum(r.get('properties_success', 0) for r in results),
            'queries': [{k: r.get(k) for k in ('query', 'desc', 'status', 'symbolic', 'bounds', 'unwind', 'defines', 'cbmc_cmd', 'stats', 'rss_mb',
                                              'cbmc_wall_s', 'wall_s', 'properties_checked', 'properties_success', 'differential', 'build', 'notes')}
                        for r in results],
            'functions_encoded': funcs[:300],
            'solver_seconds': round(sum(r.get('stats', {}).get('solver_s', 0) for r in results), 2),
            'symex_seconds': round(sum(r.get('stats', {}).get('symex_s', 0) for r in results), 2),
            'exhaustive': False,
            'explanation': 'Bounded: verdicts hold for all values of the symbolic inputs listed per query within the stated unwind / capacity '
                           'bounds; unwinding assertions and container-capacity assertions are checked, so a too-small bound is reported.',
            'trusted_base': list(trusted) or ['clang-14 -O1 lowering', 'tools/ll2c.py', 'cbmc 6.11 + minisat', 'harness oracle'],
            'checker_cmd': 'python3 runner.py %s --tier %s' % (pid, tier),
        },
        'assumptions': list(assumptions),
        'wall_s': round(time.time() - t0, 2),
        'violations': len(violations),
        'known_findings_reconfirmed': len(set(known_hits)),
        'inconclusive_queries': [r['query'] for r in inconclusive],
    }
    evdir = os.environ.get('VERIF_EVIDENCE_DIR') or os.path.join(VERIF, 'evidence')  # mutant runs write elsewhere
    os.makedirs(evdir, exist_ok=True)
    evname = pid + ('.partial' if partial else '') + '.json'
    with open(os.path.join(evdir, evname), 'w') as f:
        json.dump(ev, f, indent=1)
    if not keep:
        shutil.rmtree(root, ignore_errors=True)
    else:
        print('scratch kept at', root)
    if violations:
        return 1
    if inconclusive:
        return 2
    print('OK property=%s tier=%s queries=%d obligations=%d wall=%.0fs' % (pid, tier, n_eval, ev['coverage']['obligations'], ev['wall_s']))
    return 0


def replay(pid, queries, qname, path):
    """Rebuild the query's harness natively from /repo's working tree and run it on a replay file
    (the file's first line names the query it came from)."""
    if not qname:
        try:
            first = open(path).readline()
            m = re.match(r'# query (\S+)', first)
            if m: qname = m.group(1)
        except OSError:
            pass
    qname = (qname or '').replace('__precise', '')
    qs = [q for q in queries if q.name == qname] or queries[:1]
    q = qs[0]
    root = tempfile.mkdtemp(prefix='verif_replay_')
    try:
        info = build(q, os.path.join(root, 'q'))
        rc, out = run_exe(info['exe_n'], 'replay', path)
        print('query:', q.name)
        print(out)
        return 1 if 'ASSERT-FAIL' in out and not re.search(r'ASSERT-FAIL 9\d\d\b', out.replace('ASSERT-FAIL 999', '')) or re.search(r'ASSERT-FAIL (?!9\d\d\b)\d+', out) else 0
    finally:
        shutil.rmtree(root, ignore_errors=True)

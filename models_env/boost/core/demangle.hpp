// Environment stub (both builds of the harnesses that request it): names are not the subject of
// any property checked through this stub; demangling returns an empty name.
#ifndef BOOST_CORE_DEMANGLE_HPP_INCLUDED
#define BOOST_CORE_DEMANGLE_HPP_INCLUDED
namespace boost { namespace core {
inline const char* demangle(const char*) { return ""; }
} }
#endif

// Bounded verification models of the heap-backed std containers yomm2 uses.
// Fixed inline capacity, no allocation; exceeding the capacity trips
// verif_assert(…, 8xxx) – the analogue of an unwinding assertion.
#ifndef VMODEL_BASE_HPP
#define VMODEL_BASE_HPP
#include <cstddef>
extern "C" void verif_assert(int cond, int id);
extern "C" void __CPROVER_assume(int);
#ifndef VMODEL_CAP
#define VMODEL_CAP 8
#endif
namespace vmodel {
template<class T> struct capacity { static constexpr std::size_t value = VMODEL_CAP; };
}
#include <initializer_list>
#include <bits/move.h>
#include <bits/stl_pair.h>
#include <bits/allocator.h>
#include <bits/stl_function.h>
#include <bits/functional_hash.h>
#include <bits/stl_iterator_base_types.h>
#include <bits/stl_iterator_base_funcs.h>
#endif

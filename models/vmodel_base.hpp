// Bounded verification models of the heap-backed std containers yomm2 uses.
// Fixed inline capacity, no allocation; exceeding the capacity trips
// verif_assert(…, 8xxx) – the analogue of an unwinding assertion.
#ifndef VMODEL_BASE_HPP
#define VMODEL_BASE_HPP
#include <cstddef>
extern "C" void verif_assert(int cond, int id);
extern "C" void __CPROVER_assume(int);
// typed allocation of `count` elements of `elem_size` bytes: ll2c turns this into malloc(sizeof(T) * count)
// with T taken from the cast of the result, so that CBMC creates a typed array object (never fails).
extern "C" void* vmodel_alloc(std::size_t count, std::size_t elem_size, void* type_hint);
#ifndef VMODEL_CAP
#define VMODEL_CAP 8
#endif
namespace vmodel {
template<class T> inline T* typed_alloc(std::size_t n) { T* hint; return static_cast<T*>(vmodel_alloc(n, sizeof(T), &hint)); }
template<class T> struct capacity { static constexpr std::size_t value = VMODEL_CAP; };
}
#include <initializer_list>
#include <bits/move.h>
#include <bits/stl_pair.h>
#include <bits/allocator.h>
#include <bits/stl_function.h>
#include <bits/functional_hash.h>
#include <bits/stl_iterator_base_types.h>
#include <bits/stl_iterator_base_funcs.h>
#endif

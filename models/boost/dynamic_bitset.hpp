#ifndef VMODEL_DYNBITSET
#define VMODEL_DYNBITSET
#include <boost/config.hpp>
#include "../vmodel_base.hpp"
#include <cstdint>
#ifndef VMODEL_BITSET_WORDS
#define VMODEL_BITSET_WORDS 1
#endif
namespace boost {
// Bounded model of boost::dynamic_bitset<>: VMODEL_BITSET_WORDS 64-bit blocks (default 1); sizes above the
// capacity trip verif_assert 8051.  Same observable semantics as boost for the operations yomm2 uses
// (constructor from an unsigned long initialises the first block only, operator< compares from the most
// significant bit for equal sizes).
template<class Block = unsigned long, class Alloc = std::allocator<Block>>
class dynamic_bitset {
  public:
    using size_type = std::size_t; using block_type = Block;
    static constexpr size_type npos = static_cast<size_type>(-1);
    static constexpr int NW = VMODEL_BITSET_WORDS;
    static constexpr size_type CAPBITS = 64 * NW;
    class reference {
        dynamic_bitset& b_; size_type i_;
      public:
        reference(dynamic_bitset& b, size_type i) : b_(b), i_(i) {}
        operator bool() const { return b_.get_(i_); }
        reference& operator=(bool v) { b_.put_(i_, v); return *this; }
        reference& operator=(const reference& o) { return *this = bool(o); }
        bool operator~() const { return !bool(*this); }
    };
    dynamic_bitset() : n_(0) { zero_(); }
    explicit dynamic_bitset(size_type n, unsigned long v = 0) : n_(0) { zero_(); resize(n); w_[0] = v; trim_(); }
    size_type size() const { return n_; } bool empty() const { return n_ == 0; }
    void resize(size_type n, bool v = false) {
        verif_assert(n <= CAPBITS, 8051); __CPROVER_assume(n <= CAPBITS);
        size_type old = n_;
        n_ = n;
        if (v) for (size_type i = old; i < n && i < CAPBITS; ++i) put_(i, true);
        trim_();
    }
    void clear() { n_ = 0; zero_(); }
    bool operator[](size_type i) const { return get_(i); }
    reference operator[](size_type i) { return reference(*this, i); }
    bool test(size_type i) const { return get_(i); }
    dynamic_bitset& set(size_type i, bool v = true) { put_(i, v); return *this; }
    dynamic_bitset& set() { for (int k = 0; k < NW; ++k) w_[k] = ~std::uint64_t(0); trim_(); return *this; }
    dynamic_bitset& reset() { zero_(); return *this; }
    dynamic_bitset& flip() { for (int k = 0; k < NW; ++k) w_[k] = ~w_[k]; trim_(); return *this; }
    bool any() const { for (int k = 0; k < NW; ++k) if (w_[k]) return true; return false; }
    bool none() const { return !any(); }
    size_type count() const { size_type c = 0; for (size_type i = 0; i < CAPBITS; ++i) if (i < n_ && get_(i)) ++c; return c; }
    size_type find_first() const { for (size_type i = 0; i < CAPBITS; ++i) if (i < n_ && get_(i)) return i; return npos; }
    dynamic_bitset operator~() const { dynamic_bitset r(*this); r.flip(); return r; }
    dynamic_bitset& operator&=(const dynamic_bitset& o) { for (int k = 0; k < NW; ++k) w_[k] &= o.w_[k]; return *this; }
    dynamic_bitset& operator|=(const dynamic_bitset& o) { for (int k = 0; k < NW; ++k) w_[k] |= o.w_[k]; return *this; }
    friend dynamic_bitset operator&(const dynamic_bitset& a, const dynamic_bitset& b) { dynamic_bitset r(a); r &= b; return r; }
    friend dynamic_bitset operator|(const dynamic_bitset& a, const dynamic_bitset& b) { dynamic_bitset r(a); r |= b; return r; }
    friend bool operator==(const dynamic_bitset& a, const dynamic_bitset& b) {
        if (a.n_ != b.n_) return false;
        for (int k = 0; k < NW; ++k) if (a.w_[k] != b.w_[k]) return false;
        return true;
    }
    friend bool operator!=(const dynamic_bitset& a, const dynamic_bitset& b) { return !(a == b); }
    friend bool operator<(const dynamic_bitset& a, const dynamic_bitset& b) {
        if (a.n_ == b.n_) {
            for (int k = NW - 1; k >= 0; --k) if (a.w_[k] != b.w_[k]) return a.w_[k] < b.w_[k];
            return false;
        }
        // different sizes: bit by bit from the most significant bit of each
        size_type as = a.n_, bs = b.n_;
        for (size_type step = 0; step < CAPBITS; ++step) {
            if (as == 0 || bs == 0) break;
            --as; --bs;
            bool x = a.get_(as), y = b.get_(bs);
            if (x != y) return !x;
        }
        return as == 0 && bs != 0;
    }
  private:
    bool get_(size_type i) const { return NW == 1 ? ((w_[0] >> i) & 1) : ((w_[i >> 6] >> (i & 63)) & 1); }
    void put_(size_type i, bool v) {
        std::uint64_t m = std::uint64_t(1) << (i & 63);
        int k = NW == 1 ? 0 : (int)(i >> 6);
        if (v) w_[k] |= m; else w_[k] &= ~m;
    }
    void zero_() { for (int k = 0; k < NW; ++k) w_[k] = 0; }
    void trim_() {   // bits at and above size are kept zero
        for (int k = 0; k < NW; ++k) {
            size_type lo = 64 * size_type(k);
            if (n_ <= lo) w_[k] = 0;
            else if (n_ < lo + 64) w_[k] &= (std::uint64_t(1) << (n_ - lo)) - 1;
        }
    }
    std::uint64_t w_[NW];
    size_type n_;
};
}
#endif

#ifndef VMODEL_DYNBITSET
#define VMODEL_DYNBITSET
#include <boost/config.hpp>
#include "../vmodel_base.hpp"
#include <cstdint>
namespace boost {
// one 64-bit block; sizes above 64 trip verif_assert 8051
template<class Block = unsigned long, class Alloc = std::allocator<Block>>
class dynamic_bitset {
  public:
    using size_type = std::size_t; using block_type = Block;
    static constexpr size_type npos = static_cast<size_type>(-1);
    class reference {
        dynamic_bitset& b_; size_type i_;
      public:
        reference(dynamic_bitset& b, size_type i) : b_(b), i_(i) {}
        operator bool() const { return (b_.w_ >> i_) & 1; }
        reference& operator=(bool v) { if (v) b_.w_ |= (std::uint64_t(1) << i_); else b_.w_ &= ~(std::uint64_t(1) << i_); return *this; }
        reference& operator=(const reference& o) { return *this = bool(o); }
        bool operator~() const { return !bool(*this); }
    };
    dynamic_bitset() : w_(0), n_(0) {}
    explicit dynamic_bitset(size_type n, unsigned long v = 0) : w_(0), n_(0) { resize(n); w_ = v & mask_(); }
    size_type size() const { return n_; } bool empty() const { return n_ == 0; }
    void resize(size_type n, bool v = false) {
        verif_assert(n <= 64, 8051); __CPROVER_assume(n <= 64);
        if (v && n > n_) w_ |= (mk_(n) & ~mk_(n_));
        n_ = n; w_ &= mask_();
    }
    void clear() { n_ = 0; w_ = 0; }
    bool operator[](size_type i) const { return (w_ >> i) & 1; }
    reference operator[](size_type i) { return reference(*this, i); }
    bool test(size_type i) const { return (w_ >> i) & 1; }
    dynamic_bitset& set(size_type i, bool v = true) { reference(*this, i) = v; return *this; }
    dynamic_bitset& set() { w_ = mask_(); return *this; }
    dynamic_bitset& reset() { w_ = 0; return *this; }
    dynamic_bitset& flip() { w_ = ~w_ & mask_(); return *this; }
    bool any() const { return w_ != 0; } bool none() const { return w_ == 0; }
    size_type count() const { size_type c = 0; for (size_type i = 0; i < n_; ++i) c += (w_ >> i) & 1; return c; }
    size_type find_first() const { for (size_type i = 0; i < n_; ++i) if ((w_ >> i) & 1) return i; return npos; }
    dynamic_bitset operator~() const { dynamic_bitset r(*this); r.flip(); return r; }
    dynamic_bitset& operator&=(const dynamic_bitset& o) { w_ &= o.w_; return *this; }
    dynamic_bitset& operator|=(const dynamic_bitset& o) { w_ |= o.w_; return *this; }
    friend dynamic_bitset operator&(const dynamic_bitset& a, const dynamic_bitset& b) { dynamic_bitset r(a); r &= b; return r; }
    friend dynamic_bitset operator|(const dynamic_bitset& a, const dynamic_bitset& b) { dynamic_bitset r(a); r |= b; return r; }
    friend bool operator==(const dynamic_bitset& a, const dynamic_bitset& b) { return a.n_ == b.n_ && a.w_ == b.w_; }
    friend bool operator!=(const dynamic_bitset& a, const dynamic_bitset& b) { return !(a == b); }
    // boost 1.83: sizes first when they differ? No: compares blocks from the top for equal sizes.
    friend bool operator<(const dynamic_bitset& a, const dynamic_bitset& b) {
        if (a.n_ == b.n_) return a.w_ < b.w_;
        // boost compares bit by bit from the most significant bit of each
        size_type as = a.n_, bs = b.n_;
        while (as > 0 && bs > 0) { --as; --bs; bool x = (a.w_ >> as) & 1, y = (b.w_ >> bs) & 1; if (x != y) return !x; }
        return as == 0 && bs != 0;
    }
  private:
    static std::uint64_t mk_(size_type n) { return n >= 64 ? ~std::uint64_t(0) : ((std::uint64_t(1) << n) - 1); }
    std::uint64_t mask_() const { return mk_(n_); }
    std::uint64_t w_;
    size_type n_;
};
}
#endif

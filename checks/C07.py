from checks import update_common

LEVEL = 'model_checking'
MANIFEST = update_common.MANIFESTS.get('C07')
ASSUMPTIONS = update_common.ASSUMPTIONS


def queries(tier):
    return update_common.c07_queries(tier)

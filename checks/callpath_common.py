from framework import Query


def q(name, scen, pol=1, indirect=0, shape=1, route=None, covers=(999,), desc='', symbolic='', timeout=900, uf=None, checks='none'):
    d = {'SCEN': scen, 'POL': pol, 'INDIRECT': indirect, 'SHAPE': shape}
    if route is not None:
        d['ROUTE'] = route
    uf = (pol in (2, 3)) if uf is None else uf
    return Query(name, 'callpath.cpp', d, unwind=10, models=True, uf_mul=uf, checks=checks, covers=covers, timeout=timeout, desc=desc,
                 symbolic=symbolic or 'type ids, v-table and dispatch-table contents, other vptrs entries, hash multiplier/shift/length, slots, strides, '
                                      'group numbers, dynamic class of each argument',
                 bounds={'classes': '3 registered + 1 unregistered', 'vtable_slots': 4, 'table_cells': 8, 'vptr_vector': 8, 'unwind': 10})

POLN = {1: 'vector', 2: 'fasthash', 3: 'checkedhash', 4: 'map'}

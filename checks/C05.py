from framework import Query

LEVEL = 'model_checking'
WORKERS = {'quick': 8, 'thorough': 5}   # cadical / kissat runs of this harness need up to ~10 GB each
MANIFEST = {
    'level_text': 'Bounded model checking of the real hash search, checked lookup and v-table pointer publishing: ids are arbitrary '
                  '64-bit values, the random multipliers are arbitrary, the state left by earlier updates is arbitrary; the solver '
                  'shows that every normal return installed a perfect in-range hash, every abort was a reported search exhaustion, '
                  'and the checked lookup rejects every unregistered id.',
    'level_note': 'Bounds: <= 2 classes (3 thorough) with 1-2 ids each (which classes have two ids is a query parameter), search budget 1-2 '
                  'attempts per table size through the YOMM2_VERIF hook, tables <= 32 buckets; 64x64 multiplication abstracted as an '
                  'uninterpreted function in the proof run, failures re-decided with the bit-precise encoding. Trusted: clang lowering, ll2c, vector model (differential-tested against the real std::vector '
                  'on every run), <random> replaced by an arbitrary-value stub in both builds. ids equal to invalid_type (~0) are excluded '
                  '(the library reserves that value).',
}
ASSUMPTIONS = [
    'type ids are pairwise distinct and different from yorel::yomm2::invalid_type (~0), which the library reserves as "no id"',
    'std::default_random_engine / uniform_int_distribution return arbitrary values (environment stub models_env/random)',
    'YOMM2_VERIF_HASH_ATTEMPTS=2: two attempts per table size instead of 100000 (hook in fast_perfect_hash.hpp)',
    'state from earlier updates: hash_mult/shift/min/max/length arbitrary, vptrs and control of arbitrary size <= 64 with one arbitrary stale entry',
]


def queries(tier, other_policy=False):
    qs = []

    def add(mode, ncls, checked, mask, prior, attempts, sat=None, timeout=1800, indirect=0, proj=0):
        hc = 16 if ncls <= 1 else 32 if ncls <= 3 else 64
        nm = ('publish_after_other_policy' if mode == 4 else 'lookup_unregistered' if mode == 2 else 'lookup_formerly_registered' if mode == 3 else 'publish') + '_%s%s%s_n%d_ids%d_prior%d_a%d' % ('checked' if checked else 'fast', '_indirect' if indirect else '', '_projection' if proj else '', ncls, mask, prior, attempts)
        qs.append(Query(nm, 'c05_hash.cpp',
                        {'MODE': mode, 'NCLS': ncls, 'CHECKED': checked, 'NIDS_MASK': mask, 'PRIOR': prior, 'HASHCAP': hc,
                         'YOMM2_VERIF_HASH_ATTEMPTS': attempts, 'INDIRECT': indirect, 'PROJ': proj},
                        unwind=hc + 2, models=True, env=True, uf_mul=True, precise_defines={'IDBITS': 10}, precise_sat='cadical', checks='none', sat=sat, timeout=timeout,
                        covers=(902,) if mode in (2, 3) else ((999, 901, 903) if ncls >= 2 else (999, 901) if ncls == 1 else (999,)),
                        desc=('checked_perfect_hash::hash_type_id on an arbitrary unregistered id: unknown_class_error carrying that id, then abort'
                              if mode == 2 else 'two real updates, the second without one class: its id must be reported unknown afterwards' if mode == 3 else
                              'publish_vptrs + hash_initialize: on normal return the installed hash is in range, collision-free and every '
                              'slot holds its class v-table (control holds its id); an abort is a reported hash_search_error'),
                        symbolic='id values (64-bit), search multipliers, prior hash_mult/shift/min/max/length'
                                 + (', prior vptrs/control contents (full size, stale)' if prior else '') + (', looked-up id' if mode == 2 else ''),
                        bounds={'classes': ncls, 'two_id_classes_mask': mask, 'attempts_per_table_size': attempts, 'table_sizes': 4,
                                'max_buckets': hc, 'unwind': hc + 2}))

    if other_policy:
        # C14: policy Q (re-bound from P) is updated on the same ids first; P's update must be as good as alone and leave Q alone
        add(4, 1, 1, 1, 1, 1, sat='cadical')
        add(4, 2, 1, 0, 0, 1, sat='cadical')
        add(4, 2, 0, 0, 1, 1, sat='cadical')
        return qs
    add(1, 1, 1, 1, 1, 2)
    add(1, 2, 0, 2, 0, 1, sat='cadical')
    add(1, 2, 1, 3, 1, 1, sat='cadical')
    add(2, 1, 1, 1, 1, 1, sat='cadical')
    add(1, 0, 1, 0, 0, 1)
    add(3, 1, 1, 0, 0, 1, sat='cadical')
    add(1, 2, 0, 0, 1, 1, sat='cadical', indirect=1)
    add(1, 1, 1, 1, 0, 1, sat='cadical', proj=1)
    if tier == 'thorough':
        add(2, 2, 1, 1, 1, 1, sat='cadical', timeout=2400)
        add(1, 2, 1, 3, 0, 1, sat='cadical', proj=1, timeout=2400)
        add(1, 2, 1, 2, 1, 2, sat='cadical', timeout=1800)
        add(1, 3, 1, 7, 0, 2, sat='kissat', timeout=2400)
        add(1, 3, 0, 5, 1, 2, sat='kissat', timeout=2400)
        add(2, 3, 1, 5, 1, 1, sat='kissat', timeout=2400)
    return qs


def projection_queries(tier):
    return [x for x in queries(tier) if '_projection' in x.name]


def indirect_queries(tier):
    return [x for x in queries(tier) if '_indirect' in x.name]

"""C13: encoded dispatch data decodes to the tables update built.

Two stages per registry, both rebuilt from /repo's working tree on every run:
 1. (native, concrete) harness/update.cpp -DC13_PRODUCE: the real compiler<P> runs on the registry and the real
    generator::encode_dispatch_data writes its text; the text is parsed here (declared array sizes, initialiser numbers).
 2. (CBMC) harness/update.cpp -DC13_DECODE: the real update runs, the answers of the real resolve on a SYMBOLIC argument tuple are
    recorded, the process state is reset, the real decode_dispatch_data runs on a structure with exactly the declared sizes and the
    parsed numbers, surrounded by ARBITRARY guard words, and the same calls are made again.
"""
import concurrent.futures as cf
import os
import re
import shutil
import subprocess
import tempfile

import framework as fw
from framework import Query
from checks.registry import Registry, LATTICES
from checks import update_common as uc

LEVEL = 'model_checking'
MANIFEST = {
    'level_text': 'Bounded model checking of the real decoder on the real encoder\'s output. Per registry of a stated family (incl. the '
                  'property\'s own shapes: v-tables not starting at slot 0, uni- and multi-methods with error cells, many classes with few '
                  'methods, a class no method uses) the real compiler and generator::encode_dispatch_data produce the text (native run, no '
                  'symbolic input exists at that stage); the declared sizes must be positive and hold every initialiser; then inside CBMC the '
                  'real update runs, the real decode_dispatch_data decodes a structure of exactly the declared sizes placed between ARBITRARY '
                  'guard words, and the solver shows that for every argument tuple resolve returns what it returned after update, that slots '
                  'and strides are the installed ones, and that no guard word changes or influences the result (decoding reads and writes '
                  'only inside the emitted structure).',
    'level_note': 'Compilability is decided only as far as the numbers go (array sizes > 0, no more initialisers than elements); the '
                  'surrounding fixed text is the literal format string of generator.hpp and is not re-parsed. The encoder stage is concrete '
                  '(iostream formatting, native run under the vptr_map policy with type_info ids; the decoder stage uses the vptr_vector '
                  'policy with small integer ids: the emitted data does not depend on ids). Reads outside the structure are detected through '
                  'non-interference with %d arbitrary words on each side, not by instrumenting the decoder. Registries are concrete and '
                  'enumerated like those of C01.' % 6,
}
ASSUMPTIONS = uc.ASSUMPTIONS + ['stage 1 (encoder) runs natively on each concrete registry; its text is parsed by checks/C13.py',
                                'memory around the emitted structure: 6 arbitrary 64-bit words on each side']


def parse_text(text):
    """-> dict(H,S,E,D,T, slots, vt, dt, invalid)"""
    m = re.search(r'headroom\[(-?\d+)\];\s*uint16_t slots\[(-?\d+)\];\s*uint16_t vtbls\[(-?\d+)\];\s*\}\s*encoded;\s*std::uintptr_t vtbls\[(-?\d+)\];\s*\};\s*std::uintptr_t dtbls\[(-?\d+)\];', text)
    if not m:
        raise fw.Inconclusive('C13: emitted text not recognised:\n' + text[:600])
    H, S, E, D, T = (int(x) for x in m.groups())
    body = text[text.index('yomm2_dispatch_data = {'):]
    body = re.sub(r'//[^\n]*', '', body)
    body = body[:body.index('yorel::yomm2::decode_dispatch_data')]
    # { { { {}, { SLOTS }, { VTBLS } } }, { DTBLS } };
    groups = re.findall(r'\{([^{}]*)\}', body)
    # groups: '' (headroom), slots, vtbls, dtbls
    if len(groups) != 4 or groups[0].strip():
        raise fw.Inconclusive('C13: initialiser structure not recognised: %r' % (groups,))
    nums = [[int(t, 0) for t in re.findall(r'0x[0-9a-fA-F]+|\d+', g)] for g in groups[1:]]
    invalid = []
    for nm, v in (('headroom', H), ('slots', S), ('vtbls(encoded)', E), ('vtbls(decoded)', D), ('dtbls', T)):
        if v < 0: invalid.append('%s[%d]' % (nm, v))
    if not invalid:
        if len(nums[0]) > S: invalid.append('%d initialisers for slots[%d]' % (len(nums[0]), S))
        if len(nums[1]) > E: invalid.append('%d initialisers for vtbls[%d]' % (len(nums[1]), E))
        if len(nums[2]) > max(T, 0) and nums[2]: invalid.append('%d initialisers for dtbls[%d]' % (len(nums[2]), T))
    return {'H': H, 'S': S, 'E': E, 'D': D, 'T': T, 'slots': nums[0], 'vt': nums[1], 'dt': nums[2], 'invalid': invalid}


def produce(reg, root):
    """stage 1: run the real encoder natively on the registry; returns the parsed text"""
    wd = tempfile.mkdtemp(prefix='c13p_', dir=root)
    preg = Registry(reg.name, reg.direct, reg.methods, reg.defs, reg.presentation, reg.rec_order, reg.m_order, reg.d_order,
                    ids=['(type_id)&typeid(c13_tag<%d>)' % i for i in range(reg.nc)])
    open(os.path.join(wd, 'registry.h'), 'w').write(preg.header())
    exe = os.path.join(wd, 'producer')
    cmd = ['g++', '-std=c++17', '-O0', '-w', '-D' + fw.GUARD, '-DVERIF_NATIVE', '-DNDEBUG', '-DC13_PRODUCE', '-DPOL=3', '-I', wd, '-I', fw.HARNESS_DIR,
           '-I', os.path.join(fw.REPO, 'include'), os.path.join(fw.HARNESS_DIR, 'update.cpp'), '-x', 'c', fw.NATIVE_RT, '-o', exe]
    rc, out, dt = fw.sh(cmd, timeout=600)
    if rc != 0:
        raise fw.Inconclusive('C13 producer build failed:\n' + out[-2000:])
    rc, out, dt2 = fw.sh([exe, 'random', '1'], timeout=60)
    m = re.search(r'C13-BEGIN\n(.*)\nC13-END', out, re.S)
    if not m:
        raise fw.Inconclusive('C13 producer gave no text (rc=%s):\n%s' % (rc, out[-1500:]))
    d = parse_text(m.group(1))
    d['text_head'] = m.group(1)[:400]
    d['producer_s'] = round(dt + dt2, 1)
    return d


def data_header(d):
    if d['invalid']:
        return '#define C13_TEXT_INVALID 1\n// ' + '; '.join(d['invalid']) + '\n'
    L = ['#define C13_TEXT_INVALID 0']
    for k in 'HSEDT':
        L.append('#define C13_%s %d' % (k, d[k]))
    for nm, key in (('SLOTS', 'slots'), ('VT', 'vt'), ('DT', 'dt')):
        v = d[key]
        L.append('#define C13_N%s %d' % (nm[0] if nm != 'SLOTS' else 'S', len(v)))
        L.append('static const std::uint16_t C13_%s[%d] = {%s};' % (nm, max(len(v), 1), ', '.join(str(x) for x in v) or '0'))
    return '\n'.join(L) + '\n'


def probe_unused_class():
    # the property's probe: classes no method uses (U, V) next to a used hierarchy
    direct = [[], [0], [], []]
    return Registry('unused_classes', direct, [(1, [0])], [[[0], [1]]])


def probe_many_classes():
    # many classes with few methods: 6 leaves under one root, one uni-method
    direct = [[]] + [[0]] * 6
    return Registry('many_classes', direct, [(1, [0])], [[[0], [3]]])


def has_unused_class(reg):
    """a class that no method parameter accepts: its v-table has no entries"""
    return any(not any(reg.anc[c][vp] for _, vps in reg.methods for vp in vps) for c in range(reg.nc))


def probe_unused_base():
    # a registered root above the method's parameter class (Animal <- Dog <- Puppy, method on Dog)
    return Registry('unused_base', LATTICES['chain3'], [(1, [1])], [[[1], [2]]])


def registries(tier):
    """(registry, expects_known_finding)"""
    regs = [uc.probe_c04(), uc.probe_first_slot_sum(), uc.probe_diamond(), uc.probe_next(), uc.probe_three_roots(), uc.probe_mi_unrelated(),
            probe_many_classes(), uc.probe_leaf_param('complete'), uc.probe_leaf_param('direct', [0, 3, 2, 1]), uc.probe_arity3(), uc.probe_nontransitive()]
    fam = uc.family(tier, shapes=(1, 2, 1, 5, 2), per=2 if tier == 'quick' else 6, max_defs=3)
    # known finding (known_findings.txt): a class with no v-table entries desynchronises the decoder, after which it indexes its
    # own scratch arrays with garbage (undefined behaviour: native and translated builds diverge).  Such registries are decided by
    # the two dedicated queries below, where the first stray access leaves the structure and is caught by the access observer.
    regs += [r for r in fam if not has_unused_class(r)]
    return [(r, False) for r in regs] + [(probe_unused_class(), True), (probe_unused_base(), True)]


def queries(tier):
    pairs = registries(tier)
    regs = [r for r, _ in pairs]
    root = tempfile.mkdtemp(prefix='verif_c13_')
    try:
        with cf.ThreadPoolExecutor(max_workers=8) as ex:
            datas = list(ex.map(lambda r: produce(r, root), regs))
    finally:
        shutil.rmtree(root, ignore_errors=True)
    qs = []
    for i, (r, d) in enumerate(zip(regs, datas)):
        q = uc._q('C01', r, 'decode_' + (r.name if pairs[i][1] else uc.tag(r, i)), {'C13_DECODE': 1}, covers=(999,) if d['invalid'] else ((959,) if pairs[i][1] else (999, 960)),
                  desc='real encode (native) + real decode_dispatch_data (CBMC) on registry %s' % r.name,
                  symbolic='dynamic class of every argument; the 2 x 6 words of memory around the emitted structure', unwind=80)
        q.gen_files['c13_data.h'] = data_header(d)
        q.only_asserts = {60, 61, 62, 63, 64}
        q.unwind = max(80, d['H'] + d['S'] + d['E'] + 4 * max(d['T'], 0) + 12) if not d['invalid'] else 80
        q.bounds = dict(q.bounds, emitted={k: d[k] for k in 'HSEDT'}, initialisers=[len(d['slots']), len(d['vt']), len(d['dt'])],
                        text_invalid=d['invalid'], encoder_native_s=d['producer_s'])
        qs.append(q)
    return qs

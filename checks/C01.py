from checks import update_common

LEVEL = 'model_checking'
MANIFEST = update_common.MANIFESTS['C01']
ASSUMPTIONS = update_common.ASSUMPTIONS


def queries(tier):
    return update_common.c01_queries(tier)

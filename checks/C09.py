from checks.callpath_common import q, POLN

LEVEL = 'model_checking'
MANIFEST = {
    'level_text': 'Bounded model checking of the real virtual_ptr constructors / final / converting, copy, move construction and of '
                  'method::resolve over an ARBITRARY installed state satisfying the publish invariant: for every dynamic class, ids, table '
                  'contents and hash parameters the solver shows _vptr() equals the looked-up v-table, get/*/-> return the object, resolve '
                  'through virtual_ptr equals resolve through a reference, and an indirect virtual_ptr follows a later update.',
    'level_note': 'Hierarchy Animal <- Dog, Cat (+ one unregistered class); policies: vptr_vector with direct ids, fast and checked perfect '
                  'hash, direct and indirect v-table pointers (vptr_map in thorough). virtual_shared_ptr / make_virtual_shared are outside '
                  'the bound (std::shared_ptr control blocks are not translated). The publish invariant assumed here is asserted by the '
                  'update-side checks (C01/C05).',
}
ASSUMPTIONS = ['installed state satisfies what publish_vptrs establishes: vptrs[index(id C)] == static_vptr<C> (and control[index] == id)',
               'ids pairwise distinct, != invalid_type', 'hash: 64x64 multiplication abstracted as uninterpreted function in the proof run']


def queries(tier):
    qs = []
    pols = [(1, 0), (1, 1), (3, 0)] if tier == 'quick' else [(1, 0), (1, 1), (2, 0), (2, 1), (3, 0), (3, 1), (4, 0)]
    for pol, ind in pols:
        nm = '%s_%s' % (POLN[pol], 'indirect' if ind else 'direct')
        qs.append(q('routes_uni_' + nm, 1, pol, ind, desc='virtual_ptr routes (base ref, exact type, final, converting, copy, move) + uni-method resolve, ' + nm))
        shapes = (1, 4) if tier == 'quick' else (1, 2, 3, 4)
        for sh in shapes:
            if tier == 'quick' and (pol, ind) != (1, 0) and sh != 1:
                continue
            qs.append(q('multi_shape%d_%s' % (sh, nm), 2, pol, ind, shape=sh, desc='arity-2 resolve through references and virtual_ptrs, signature shape %d, %s' % (sh, nm)))
        if ind:
            qs.append(q('survives_update_' + nm, 3, pol, ind, desc='indirect policy: virtual_ptr created before a later update follows the rewritten static v-table pointers'))
    # publishing side of the indirect promise: after an update from any earlier state the indirect table holds, at every
    # registered id's index, the address of that class's static v-table pointer (shared harness with C05)
    from checks import C05
    qs += C05.indirect_queries(tier)
    from checks import update_common
    qs += update_common.c09_publish_queries(tier)
    return qs

from checks.callpath_common import q, POLN

LEVEL = 'model_checking'
MANIFEST = {
    'level_text': 'Thread interleavings are not explored. What the solver decides is the sufficient condition the property rests on: the '
                  'call path is read-only. For an arbitrary installed state, after resolve (uni and multi, every signature shape), '
                  'virtual_ptr construction on every route, copy, move, final, every policy static the path can reach (static v-table '
                  'pointers, vptrs, hash parameters, slots/strides, v-tables, dispatch tables) is bit-identical to its value before; the '
                  'translated IR of the call-path functions is additionally scanned for atomic read-modify-write instructions and stores '
                  'to globals. No write => no data race between concurrent calls under the C++ memory model; an update of another policy '
                  'touches disjoint statics (C14).',
    'level_note': 'Frame-condition proof within the C09 bounds, not schedule exploration; trusted: the C++ memory model argument that '
                  'concurrent reads of unmodified objects do not race.',
    'technique': 'bounded symbolic execution of the real call path (clang IR -> ll2c -> CBMC): frame condition over all policy statics + IR scan for writes/atomics',
}
ASSUMPTIONS = ['update has returned; no update of the same policy runs concurrently (as the property states)']


def queries(tier):
    qs = []
    pols = [(1, 0), (3, 0), (1, 1)] if tier == 'quick' else [(1, 0), (1, 1), (2, 0), (2, 1), (3, 0), (3, 1)]
    for pol, ind in pols:
        nm = '%s_%s' % (POLN[pol], 'indirect' if ind else 'direct')
        qs.append(q('frame_uni_' + nm, 1, pol, ind, desc='frame condition after virtual_ptr construction on all routes + uni-method resolve, ' + nm))
        for sh in ((1, 2) if tier == 'quick' and (pol, ind) == (1, 0) else (1,) if tier == 'quick' else (1, 2, 3, 4)):
            qs.append(q('frame_multi_shape%d_%s' % (sh, nm), 2, pol, ind, shape=sh, desc='frame condition after arity-2 resolve, shape %d, %s' % (sh, nm)))
    return qs


def extra_checks(tier, root):
    """Syntactic side check on the IR of the call path (compiled at -O0 so that every function is still separate):
    no atomic read-modify-write, no fence, no store to a global, no function-local static (guard variable) in any yomm2
    function that the call path instantiates. Registration-time functions (constructors/destructors of method<>, static_list) are
    excluded by name."""
    import os, re, subprocess, time
    import framework as fw
    t0 = time.time()
    out = []
    bad = []
    scanned = []
    combos = ((1, 0), (1, 1), (2, 0), (2, 1), (3, 0), (3, 1), (4, 0))
    for pol, ind in combos:
        ll = os.path.join(root, 'scan_%d_%d.ll' % (pol, ind))
        cmd = ['clang++-14', '-std=c++17', '-O0', '-fno-exceptions', '-DBOOST_NO_EXCEPTIONS', '-D' + fw.GUARD, '-DNDEBUG', '-fno-rtti', '-DBOOST_NO_RTTI',
               '-Wno-everything', '-I', fw.HARNESS_DIR, '-I', os.path.join(fw.REPO, 'include'), '-DSCEN=1', '-DPOL=%d' % pol, '-DINDIRECT=%d' % ind,
               '-DSCAN_ALL_ROUTES', '-S', '-emit-llvm', os.path.join(fw.HARNESS_DIR, 'callpath.cpp'), '-o', ll]
        p = subprocess.run(cmd, stdout=subprocess.PIPE, stderr=subprocess.STDOUT)
        if p.returncode != 0:
            return [{'query': 'ir_scan', 'status': 'inconclusive', 'violations': [], 'notes': ['clang -O0 failed: ' + p.stdout.decode()[-800:]], 'desc': 'IR scan'}]
        cur = None
        for line in open(ll):
            m = re.match(r'define .* @("?[\w$.]+"?)\(', line)
            if m:
                cur = m.group(1)
                is_yomm2 = cur.lstrip('"').startswith('_ZN5yorel5yomm2') or cur.lstrip('"').startswith('_ZNK5yorel5yomm2')
                excluded = bool(re.search(r'6methodI.*(C[12]Ev|D[12]Ev)"?$', cur)) or 'static_list' in cur
                active = is_yomm2 and not excluded
                if active: scanned.append(cur)
                continue
            if line.startswith('}'):
                cur = None
                continue
            if cur and active:
                if re.search(r'\b(atomicrmw|cmpxchg|fence)\b', line) or re.search(r'\bstore\b.*, [^,]*\* (getelementptr inbounds \()?[^%]*@', line) \
                        or '@_ZGV' in line or '__cxa_guard' in line:
                    bad.append((cur, line.strip()[:160]))
    res = {'query': 'ir_scan_call_path_is_read_only', 'harness': 'callpath.cpp (-O0 IR)', 'status': 'pass', 'violations': [], 'notes': [],
           'desc': 'IR scan: no atomics / fences / stores to globals / local statics in %d call-path functions' % len(set(scanned)),
           'wall_s': round(time.time() - t0, 2), 'functions_encoded': sorted(set(scanned))[:80], 'properties_checked': len(set(scanned)),
           'properties_success': len(set(scanned)) - len({b[0] for b in bad}), 'stats': {'vccs_remaining': 0}}
    if bad:
        rf = os.path.join(root, 'ir_scan_findings.txt')
        open(rf, 'w').write('\n'.join('%s: %s' % b for b in bad) + '\n')
        res['status'] = 'violation'
        res['violations'] = [{'assert_id': 'call path writes shared state: %s' % bad[0][0][:80], 'replay_file': rf, 'inputs': [], 'reproduced_natively': True}]
    return [res]

from framework import Query

LEVEL = 'model_checking'
MANIFEST = {
    'level_text': 'Bounded model checking of the real static_list template and of the self-registering objects: every history of K '
                  'operations over a 4-node pool (K=5 quick, 10 thorough) plus one inductive step from an arbitrary well-formed list, '
                  'which extends the claim to histories of any length over that pool; CBMC pointer/bounds checks on.',
    'level_note': 'Trusted: clang-14 lowering, ll2c, CBMC/SAT, the array model. Assumes the documented preconditions (push only '
                  'unlinked nodes, remove only members). Pool size 4; instantiations: class_info, harness Node, class_declaration_aux, '
                  'method<key, void(virtual_<Obj&>), P>, definition_info.',
}
ASSUMPTIONS = [
    'documented preconditions of static_list: push_back only on an unlinked node, remove only on a node of this list',
    'operator new cannot fail; __cxa_atexit is a no-op (static destructors at exit are not modelled)',
    'pool of 4 nodes (3 per catalog in the registration-object harness)',
]


def queries(tier):
    k = 5 if tier == 'quick' else 10
    k3 = 4 if tier == 'quick' else 7
    qs = [
        Query('hist_class_info_k%d' % k, 'c18_list.cpp', {'MODE': 1, 'VK': k}, unwind=k + 2, checks='memory', timeout=3000,
              desc='static_list<class_info>: every history of %d push/remove/clear operations over 4 nodes vs array model' % k,
              symbolic='operation kind and node of each of the %d steps' % k, bounds={'steps': k, 'nodes': 4, 'unwind': k + 2}),
        Query('inductive_step', 'c18_list.cpp', {'MODE': 2}, unwind=7, checks='memory', covers=(999, 901, 902), timeout=3000,
              desc='static_list<Node>: one arbitrary operation from an arbitrary well-formed list (length, order symbolic); '
                   'representation invariant re-established, so the step composes to histories of any length',
              symbolic='pre-state list length and node order, operation, node', bounds={'nodes': 4, 'unwind': 7}),
        Query('registration_objects_k%d' % k3, 'c18_list.cpp', {'MODE': 3, 'VK': k3}, unwind=k3 + 3, checks='memory', timeout=3000,
              desc='constructor/destructor driven registration: class_declaration_aux, method<> instances, definition_info '
                   'destructor, add_function idempotence; %d symbolic construct/destroy steps' % k3,
              symbolic='kind, slot and ctor/dtor choice of each step', bounds={'steps': k3, 'unwind': 7}),
    ]
    return qs

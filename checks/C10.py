from checks import update_common

LEVEL = 'model_checking'
MANIFEST = update_common.MANIFESTS.get('C10')
ASSUMPTIONS = update_common.ASSUMPTIONS


def queries(tier):
    return update_common.c10_queries(tier)

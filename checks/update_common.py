"""Queries on the update-side harness (harness/update.cpp) shared by C01 C02 C03 C04 C06 C07 C08 C10 C15 C17."""
import os
import random
from framework import Query
from checks.registry import Registry, LATTICES, random_registry, permuted, SHAPE_AR

ASSUMPTIONS = [
    'registries are concrete and enumerated (named lattice shapes x sampled methods/definitions seeded by VERIF_SEED); inside one '
    'query the solver variables are the dynamic class of every argument (and abstract flags, prior state, alias id choice where used)',
    "definition parameter classes derive from the method's (enforced at compile time by the front end)",
    'container models (models/) replace std::vector/deque/map/unordered_* and boost::dynamic_bitset in the CBMC build; the native build '
    'uses the real ones and both are differential-tested on every run',
]

ASSERTS = {'C01': {1, 2, 14, 15}, 'C09': {14, 15}, 'C02': {1, 2}, 'C03': {20}, 'C04': {10, 11, 12, 13, 14, 15, 30, 31, 32, 33}, 'C06': {1, 2, 20},
           'C07': {1, 2, 20, 47, 14}, 'C08': {1, 2, 10, 11, 12, 13, 20, 30, 31, 32, 33}, 'C10': {1, 2, 14, 15, 20},
           'C15': {40, 41, 42, 45, 46}, 'C17': {50, 51, 52, 53, 54}}

QUICK_LATTICES = ['chain3', 'tree3', 'vee', 'diamond', 'n_shape', 'three_roots_join', 'probe_c04', 'diamond_tail']
ALL_LATTICES = [k for k in LATTICES if k not in ('single', 'probe_c06')]


def seed():
    return int(os.environ.get('VERIF_SEED', '1') or 1)


def _q(pid, reg, name, defines=None, covers=(999,), timeout=900, desc='', unwind=66, symbolic=None, extra_header='', checks='none'):
    d = {'POL': 1}
    d.update(defines or {})
    return Query(name, 'update.cpp', d, unwind=unwind, models=True, checks=checks, covers=covers, timeout=timeout,
                 gen_files={'registry.h': reg.header(extra_header)}, desc=desc or ('real update + resolve on registry ' + reg.name),
                 symbolic=symbolic or 'dynamic class of every argument of every method',
                 bounds={'registry': reg.describe(), 'unwind': unwind, 'container_capacity': 8, 'pointer_vector_capacity': 32,
                         'dispatch_data_capacity': 64},
                 diff_random=3, only_asserts=ASSERTS[pid])


# ---- named probes (from the properties' own descriptions) ---------------------
def probe_diamond():
    return Registry('diamond', LATTICES['diamond'], [(2, [0, 0]), (5, [0, 0])], [[[0, 0], [1, 2], [3, 0]], [[1, 0], [0, 2], [3, 3]]])


def probe_c04(presentation='complete', rec_order=None):
    # C10, C11, C12:{C10}, C15:{C12,C11}; uni-methods on C10, C11, C15
    return Registry('probe_c04', LATTICES['probe_c04'], [(1, [0]), (1, [1]), (1, [3])], [[[0], [3]], [[1]], [[3]]], presentation, rec_order)


def probe_c06():
    # definitions (X,R), (Z,Q), (Y,P); call (W,R)
    return Registry('probe_c06', LATTICES['probe_c06'], [(2, [0, 5])], [[[1, 7], [3, 6], [2, 5]]])


def probe_c17():
    # A abstract; definitions (A,B), (A,C), (B,D), (C,D), (D,D) on a diamond
    return Registry('probe_c17', LATTICES['diamond'], [(2, [0, 0])], [[[0, 1], [0, 2], [1, 3], [2, 3], [3, 3]]])


def probe_three_roots():
    # X, B, Y roots, D:{X,B,Y}; methods on each root
    return Registry('three_roots_join', LATTICES['three_roots_join'], [(1, [0]), (1, [1]), (1, [2])], [[[0], [3]], [[1], [3]], [[2]]])


def probe_mi_unrelated():
    # Root, Left:{Root}, Right:{Root}, Both:{Left,Right}; Item, Special:{Item}: (Left,Item) vs (Right,Special), call (Both,Special)
    direct = [[], [0], [0], [1, 2], [], [4]]
    return Registry('mi_unrelated', direct, [(2, [0, 4])], [[[1, 4], [2, 5]]])


def probe_nontransitive():
    # T; B:{T}; A:{B}; C:{T}; W:{A,C}.  a=(A,C) beats b=(B,A) (position 1), b beats c=(C,B) (position 2), a and c are incomparable:
    # no definition is more specific than all the others for the call (W,W)
    direct = [[], [0], [1], [0], [2, 3]]
    return Registry('nontransitive', direct, [(2, [0, 0])], [[[2, 3], [1, 2], [3, 1]]])


def probe_deep_join(rec_order=(4, 3, 2, 1, 0)):
    # A; B:{A}; C:{B}; E; X:{C,E}: direct bases only, X registered before C, E before A; methods on E and on A
    direct = [[], [0], [1], [], [2, 3]]
    return Registry('deep_join', direct, [(1, [3]), (1, [0])], [[[3], [4]], [[0], [4]]], 'direct', list(rec_order))


def probe_first_slot_sum():
    # Top with two methods, Side with one, Join:{Top,Side}, S1,S2,S3:{Side}: the classes under Side get first_slot 2; the sum of the
    # first slots exceeds the slack of the dispatch-data size computation
    direct = [[], [], [0, 1], [1], [1], [1]]
    return Registry('first_slot_sum', direct, [(1, [0]), (1, [0]), (1, [1])], [[[0], [2]], [[0]], [[1], [3], [5]]])


def probe_abstract_adjacent():
    # R <- A <- B and X <- Y, Z: gaps / ambiguities reachable only through a cell shared by an abstract-only group and a concrete one
    direct = [[], [0], [1], [], [3], [3]]
    return Registry('abstract_adjacent', direct, [(2, [1, 3]), (2, [0, 3])], [[[1, 4], [2, 4]], [[1, 3], [0, 4], [2, 5]]])


def probe_leaf_param(presentation='direct', rec_order=None):
    # R1, R2, C:{R2}, D:{R1,C}; uni-methods on the leaf D, on its indirect base R2 and on R1
    direct = [[], [], [1], [0, 2]]
    return Registry('leaf_param', direct, [(1, [3]), (1, [1]), (1, [0])], [[[3]], [[1], [3]], [[0]]], presentation, rec_order)


def probe_many_defs():
    # Shape(0), Special:{Shape}(1), seven fillers F2..F8:{Shape}; one method (Shape, Shape) with 66 definitions: (Special,Shape) first,
    # 64 fillers, (Shape,Special) last - the bit set of applicable definitions crosses the 64-bit block boundary
    direct = [[]] + [[0] for _ in range(8)]
    fill = [[i, j] for i in range(2, 9) for j in range(2, 9)] + [[i, 0] for i in range(2, 9)] + [[0, j] for j in range(2, 9)] + [[0, 0]]
    assert len(fill) == 64
    return Registry('many_defs', direct, [(2, [0, 0])], [[[1, 0]] + fill + [[0, 1]]])


BIG = {'VMODEL_CAP': 80, 'PTRCAP': 128, 'DDCAP': 192, 'VMODEL_BITSET_WORDS': 2}


def probe_next():
    # C03: (A,A), (A,Dog), (Dog,A), (Dog,Cat) over Animal <- Dog, Cat
    return Registry('tree3_next', LATTICES['tree3'], [(2, [0, 0]), (2, [0, 0])],
                    [[[0, 0], [0, 1], [1, 0], [1, 2]], [[0, 1], [1, 2]]])


def probe_arity3():
    return Registry('chain2_arity3', LATTICES['chain2'], [(3, [0, 0, 0])], [[[0, 0, 1], [1, 0, 0], [0, 1, 0], [1, 1, 1]]])


def probe_uni_ambiguous():
    # a uni-method (and its (int, virtual) twin) on a diamond with definitions for the two unrelated middle classes only:
    # the call with the joining class has two applicable definitions and no most specific one
    return Registry('uni_ambiguous', LATTICES['diamond'], [(1, [0]), (4, [0])], [[[1], [2]], [[1], [2], [0]]])


def probe_arity3_gap():
    # arity 3 where a class of the LAST parameter has no applicable definition at all and the first parameter has two groups
    return Registry('chain2_arity3_gap', LATTICES['chain2'], [(3, [0, 0, 0])], [[[0, 0, 1], [1, 0, 1], [0, 1, 1]]])


def probe_arity3_gap_mid():
    # same with the gap in the middle parameter, on a tree (three groups per parameter)
    return Registry('tree3_arity3_gap', LATTICES['tree3'], [(3, [0, 0, 0])], [[[0, 1, 0], [1, 1, 2], [2, 2, 1]]])


def family(tier, shapes=(1, 2, 2, 5, 3, 7), max_defs=3, per=None, lattices=None, nm=None, presentation='complete'):
    rnd = random.Random(seed() * 1000003 + 17)
    lat = lattices or (QUICK_LATTICES if tier == 'quick' else ALL_LATTICES)
    per = per or (2 if tier == 'quick' else 5)
    regs = []
    for ln in lat:
        for i in range(per):
            regs.append(random_registry(rnd, ln, nm=nm, max_defs=max_defs, shapes=shapes, presentation=presentation))
    return regs


def tag(reg, i):
    return '%s_%02d' % (reg.name, i)


def base_regs(tier):
    regs = [probe_uni_ambiguous(), probe_arity3_gap(), probe_arity3_gap_mid(), probe_diamond(), probe_mi_unrelated(), probe_next(), probe_arity3(), probe_c06(), probe_three_roots(), probe_nontransitive()]
    regs += family(tier)
    if tier == 'thorough':
        regs += family(tier, shapes=(6, 4, 8, 3), per=1, lattices=['chain3', 'tree3', 'diamond'], nm=1, max_defs=4)
    return regs


def c01_queries(tier):
    qs = [_q('C01', r, 'dispatch_' + tag(r, i), covers=(999,)) for i, r in enumerate(base_regs(tier))]
    for pol in (2, 3):
        for j, r in enumerate([probe_diamond(), probe_next()] if tier == 'thorough' else [probe_diamond()]):
            qs.append(_q('C01', r, 'dispatch_pol%d_%s' % (pol, tag(r, j)), {'POL': pol, 'PRIOR_GARBAGE': 24},
                         desc='policy %s, starting from the state an earlier update left' % ('vptr_vector + indirect' if pol == 2 else 'vptr_map')))
    return qs + kernel_queries('C01', tier)


def c02_queries(tier):
    qs = [_q('C02', r, 'errorcell_' + tag(r, i)) for i, r in enumerate(base_regs(tier)[:13 if tier == 'quick' else 33])]
    return qs


def c03_queries(tier):
    regs = base_regs(tier)
    qs = [_q('C03', r, 'next_' + tag(r, i)) for i, r in enumerate(regs)]
    # every update recomputes next: start from garbage next pointers, update twice
    qs += [_q('C03', r, 'next_recomputed_' + tag(r, i), {'PRIOR_GARBAGE': 16, 'TWO_UPDATES': 1},
              symbolic='argument classes; prior next pointers, dispatch data, static v-table pointers, slots/strides arbitrary')
           for i, r in enumerate([probe_next(), probe_diamond()])]
    return qs + kernel_queries('C03', tier)


def c04_queries(tier):
    regs = [probe_c04(), probe_c04('complete', [1, 0, 2, 3]), probe_c04('direct', [1, 0, 2, 3]), probe_three_roots(), probe_diamond(), probe_deep_join(), probe_first_slot_sum(), probe_leaf_param('direct', [0, 3, 2, 1]), probe_leaf_param('complete', [0, 3, 2, 1]), probe_leaf_param('complete', [3, 0, 2, 1])]
    regs += family(tier, shapes=(1, 1, 2, 1, 5), nm=3, max_defs=2)
    if True:
        # incremental (direct bases only) presentation of the family, in a second registration order
        rnd = random.Random(seed() * 31 + 5)
        regs += [permuted(Registry(r.name, r.direct, r.methods, r.defs, 'direct'), rnd) for r in family(tier, shapes=(1, 1, 2, 1), nm=3, max_defs=1, per=1)]
    return [_q('C04', r, 'slots_' + tag(r, i)) for i, r in enumerate(regs)]


def c06_queries(tier):
    rnd = random.Random(seed() * 7 + 3)
    base = [probe_c06(), probe_nontransitive(), probe_diamond(), probe_mi_unrelated(), probe_next()] + family(tier, per=1)
    base += [probe_deep_join((0, 1, 2, 3, 4)), probe_c04('direct'), probe_leaf_param('complete'), probe_leaf_param('direct')]
    qs = []
    nperm = 3 if tier == 'quick' else 8
    for i, r in enumerate(base):
        k = nperm if i < 5 else (6 if r.name in ('deep_join', 'probe_c04', 'leaf_param') else (1 if tier == 'quick' else 3))
        import itertools
        if r.name in ('probe_c06', 'nontransitive'):
            # all 6 orders of the three definitions
            for j, o in enumerate(itertools.permutations(range(3))):
                pr = Registry(r.name, r.direct, r.methods, r.defs, r.presentation, None, None, [list(o)])
                qs.append(_q('C06', pr, 'order_%s_d%d' % (tag(r, i), j), desc='definition registration order %s' % (list(o),)))
            continue
        for j in range(k):
            qs.append(_q('C06', permuted(r, rnd), 'order_%s_p%d' % (tag(r, i), j), desc='permuted class / method / definition registration order'))
    return qs


def c08_queries(tier):
    qs = []
    pres = ['direct', 'direct_noself', 'redundant', 'split', 'split_trans']
    base = [probe_c04(), probe_diamond(), probe_three_roots()] + family(tier, per=1, lattices=['diamond', 'n_shape', 'probe_c04', 'diamond_tail', 'chain4'] if tier == 'quick' else None)
    for i, r in enumerate(base):
        for p in (pres if (tier == 'thorough' or i < 3) else pres[:2] + [pres[3]]):
            pr = Registry(r.name, r.direct, r.methods, r.defs, p)
            qs.append(_q('C08', pr, 'presentation_%s_%s' % (p, tag(r, i)), desc='base lists presented as: ' + p))
    for j, ro in enumerate(([4, 3, 2, 1, 0], [4, 2, 3, 1, 0], [0, 1, 2, 3, 4], [3, 4, 0, 2, 1])):
        qs.append(_q('C08', probe_deep_join(ro), 'presentation_direct_deep_join_o%d' % j, desc='deep chain joined with an unrelated root, direct bases only, record order %s' % ro))
    for j, (p, ro) in enumerate((('direct', [0, 3, 2, 1]), ('direct', [3, 0, 2, 1]), ('complete', [0, 3, 2, 1]), ('split', None), ('direct', [1, 2, 3, 0]))):
        qs.append(_q('C08', probe_leaf_param(p, ro), 'presentation_%s_leaf_param_o%d' % (p, j), desc='leaf class and its indirect base both method parameters; %s, record order %s' % (p, ro)))
    # the property's own probe: incremental registration, class C11 registered before C10
    for p in ('direct', 'direct_noself', 'complete'):
        qs.append(_q('C08', probe_c04(p, [1, 0, 2, 3]), 'presentation_%s_probe_c04_c11_first' % p, desc='base lists presented as: %s; C11 registered first' % p))
    return qs


def c17_queries(tier):
    regs = [probe_c17(), probe_abstract_adjacent(), probe_diamond(), probe_arity3(), probe_next()] + family(tier, shapes=(2, 2, 3, 1, 5), per=1 if tier == 'quick' else 3, max_defs=4)
    def unw(r):
        # the report oracle enumerates NC^arity class tuples per method
        return max([130] + [len(r.direct) ** SHAPE_AR[s] + 2 for s, _ in r.methods])
    return [_q('C17', r, 'report_' + tag(r, i), {'CHECK_REPORT': 1}, unwind=unw(r), symbolic='abstract / concrete flag of every class; argument classes')
            for i, r in enumerate(regs)]


def c07_queries(tier):
    regs = [probe_diamond(), probe_next(), probe_c04()] + family(tier, per=1, lattices=['tree3', 'diamond', 'vee'] if tier == 'quick' else None)
    return [_q('C07', r, 'history_' + tag(r, i), {'PRIOR_GARBAGE': 24, 'TWO_UPDATES': 1},
               symbolic='state left by earlier updates: dispatch data (24 words), static v-table pointers, slots/strides, next pointers, vptrs; argument classes')
            for i, r in enumerate(regs)] + \
        [_q('C07', r, 'history_vptr_map_' + tag(r, i), {'PRIOR_GARBAGE': 24, 'TWO_UPDATES': 1, 'POL': 3},
            symbolic='state left by earlier updates incl. which classes the persistent vptr map already knows; argument classes')
         for i, r in enumerate([probe_diamond(), probe_next()])] + deferred_queries('C07', tier)


def c10_queries(tier):
    qs = []
    base = [probe_diamond(), probe_next(), probe_arity3()] + family(tier, per=1, lattices=['chain3', 'diamond'] if tier == 'quick' else QUICK_LATTICES)
    for i, r in enumerate(base):
        ar = Registry(r.name, r.direct, r.methods, r.defs, r.presentation, alias=True)
        qs.append(_q('C10', ar, 'alias_ids_' + tag(r, i), {'ALIAS_IDS': 1}, desc='two ids per class, many-to-one type_index projection',
                     symbolic='argument classes and which of its two ids each argument object carries'))
        sp = Registry(r.name, r.direct, r.methods, r.defs, r.presentation, alias='split')
        qs.append(_q('C10', sp, 'alias_split_' + tag(r, i), {'ALIAS_IDS': 1}, desc='two ids per class; the record under the first id lists no bases, the record under the second id lists them',
                     symbolic='argument classes and which of its two ids each argument object carries'))
        sparse = Registry(r.name, r.direct, r.methods, r.defs, r.presentation, ids=[3 + 4 * k for k in range(len(r.direct))])
        qs.append(_q('C10', sparse, 'custom_ids_' + tag(r, i), desc='custom integer ids 3,7,11,... (identity projection)'))
    from checks import C05
    return qs + deferred_queries('C10', tier) + C05.projection_queries(tier)


def c15_queries(tier):
    qs = []
    for pos, nm in ((1, 'base_list'), (2, 'method_parameter'), (3, 'definition_parameter')):
        for i, r in enumerate([probe_diamond(), probe_next()]):
            qs.append(_q('C15', r, 'update_unregistered_%s_%s' % (nm, tag(r, i)), {'UNREG_POS': pos, 'UNREG_ID': 23}, covers=(950,),
                         desc='unregistered id in a ' + nm + ': unknown_class_error with that id before anything is installed'))
    for i, r in enumerate([probe_diamond(), probe_next()]):
        sp = Registry(r.name, r.direct, r.methods, r.defs, 'split')
        qs.append(_q('C15', sp, 'update_unregistered_base_list_later_record_%s' % tag(r, i), {'UNREG_POS': 1, 'UNREG_ID': 23}, covers=(950,),
                     desc='a class registered by several records: the unregistered base is listed by the last one only'))
    return qs


_NOTE = ('Registries are concrete and enumerated (named lattice shapes incl. the properties\' own probes + methods/definitions sampled with '
         'VERIF_SEED); CBMC cannot keep the compiler\'s pointer-rich state symbolic within budget (DESIGN.md §1). Inside a query the solver '
         'quantifies over the dynamic class of every argument (and the extra variables named per query). Trusted: clang-14 -O1 lowering, ll2c, '
         'container models (differential-tested against the real containers on every run), CBMC, the ~60-line oracle.')


def _m(text):
    return {'level_text': text, 'level_note': _NOTE}


MANIFESTS = {
    'C01': _m('Bounded model checking of the real update pipeline and call path: compiler<P> (augment_classes .. build_dispatch_tables, '
              'best, install_gv, publish_vptrs) runs inside CBMC on each registry of a stated family, then the real method::resolve '
              'runs on a symbolic argument tuple; the solver shows the returned pointer equals the reference oracle (documented '
              'rule: applicable and more specific than every other applicable definition) for every tuple, for signature shapes '
              '(v),(v,v),(v,v,v),(n,v),(v,n,v),(n,v,n,v),(v,v,n),(v,v,v,v). The table walk itself is decided for arbitrary tables, '
              'hashes and vptr placements by the call-path queries (C09), the hash by C05.'),
    'C03': _m('Same pipeline as C01; after update the next pointer of every definition must equal the oracle applied to the definitions '
              'that are, at every position, the definition\'s class or a base of it and differ somewhere (winner / not-implemented / '
              'ambiguous); a second query family starts from arbitrary stale next pointers and installed state and updates twice.'),
    'C04': _m('Same pipeline as C01 on registries with up to 3 methods: for every class and every (method, parameter) applicable to it the '
              'slot lies inside the class\'s v-table as sized by update and no two pairs share a slot; a bounds-checked re-implementation of '
              'the documented table walk over the installed vector (every index asserted inside dispatch_data) must agree with the real '
              'resolve and the oracle for every symbolic argument tuple.'),
    'C06': _m('The registry is presented to the real update in permuted class / method / definition registration orders (all 6 orders of the '
              'property\'s probe, sampled permutations elsewhere); every order must agree with the order-free oracle on every argument tuple and '
              'every next pointer, hence with every other order.'),
    'C07': _m('One inductive step instead of enumerated histories: all state that survives between updates (dispatch data, static v-table '
              'pointers, slots/strides, next pointers, vptrs) starts ARBITRARY, the catalogs hold the current registry, update runs: dispatch '
              'must equal the oracle on the current registry and a second update must leave every installed word identical. Catalog integrity '
              'under add/remove is C18; the hash state is C05; deferred-RTTI id resolution has its own leaf queries.'),
    'C08': _m('The same inheritance graph is registered under different presentations (complete lists, direct bases only, without the class '
              'itself, redundant/duplicated, split over several records, transitive part in a separate reversed record) and record orders; '
              'slots, dispatch and next must equal the oracle computed from the true graph.'),
    'C10': _m('Same pipeline under custom RTTI flavours: sparse integer ids with identity projection; two ids per class with a many-to-one '
              'type_index projection (each argument object symbolically carries either id; both ids must reach the class\'s v-table); '
              'deferred_static_rtti id resolution across two updates is decided by leaf queries on resolve_static_type_ids. std_rtti differs '
              'only by the id values and type_index (typeid pointers), which the hash (C05) and map lookups treat opaquely.'),
    'C17': _m('Same pipeline with a symbolic abstract/concrete flag per class: after compile() the report\'s not_implemented / ambiguous / '
              'concrete_* fields (as zero / non-zero) must equal an oracle enumeration of all acceptable class tuples, and cells must equal the '
              'number of multi-method dispatch cells built.'),
}


def deferred_queries(pid, tier):
    qs = []
    for ar in ((1, 2) if tier == 'quick' else (1, 2, 3)):
        for upd in (1, 2, 3) if tier == 'thorough' else (1, 2):
            qs.append(Query('deferred_ids_arity%d_updates%d' % (ar, upd), 'c07_deferred.cpp', {'ARITY': ar, 'UPDATES': upd}, unwind=10, models=True,
                            checks='none', timeout=600,
                            desc='resolve_static_type_ids: every deferred id resolved exactly once across %d update(s), arity %d, one class without bases' % (upd, ar),
                            symbolic='which class each method / definition parameter names',
                            bounds={'classes': 3, 'definitions': 2, 'arity': ar, 'updates': upd}))
    return qs


def kernel_queries(pid, tier):
    """best / is_more_specific / is_base on a symbolic inheritance relation: all lattices on NC classes at once."""
    cfgs = [(3, 2, 2), (4, 2, 2), (4, 2, 1)] if tier == 'quick' else [(3, 3, 2), (4, 2, 2), (4, 3, 1), (4, 2, 1), (4, 2, 3)]
    qs = []
    for nc, nd, ar in cfgs:
        qs.append(Query('kernel_best_nc%d_nd%d_ar%d' % (nc, nd, ar), 'kernel_best.cpp', {'NC': nc, 'ND': nd, 'AR': ar}, unwind=12, models=True,
                        checks='none', covers=(999, 901, 902), timeout=5400 if tier == 'thorough' else 1800,
                        desc='compiler::best / is_more_specific / is_base for EVERY inheritance relation on %d classes, every %d definitions of arity %d, '
                             'every presentation order' % (nc, nd, ar),
                        symbolic='the whole inheritance relation (reflexive, transitive, antisymmetric), the parameter classes of every definition, '
                                 'the order of the candidates',
                        bounds={'classes': nc, 'definitions': nd, 'arity': ar, 'unwind': 12},
                        only_asserts={1, 3, 4, 5} if pid in ('C01', 'C02', 'C06') else {2, 3, 4, 5}))
    return qs


def c09_publish_queries(tier):
    """publishing side of C09 for the map / indirect placements: after an update from any earlier state, every class id leads to the
    class's current v-table (what virtual_ptr construction from a base reference and plain references look up)"""
    qs = []
    for pol, nm in ((3, 'vptr_map'), (2, 'vector_indirect')):
        for i, r in enumerate([probe_diamond()] if tier == 'quick' else [probe_diamond(), probe_next(), probe_c04()]):
            qs.append(_q('C09', r, 'publish_%s_%s' % (nm, tag(r, i)), {'PRIOR_GARBAGE': 24, 'TWO_UPDATES': 1, 'POL': pol},
                         desc='v-table pointers published by update (%s) from an arbitrary earlier state' % nm,
                         symbolic='state left by earlier updates incl. which classes the persistent table already knows'))
    return qs


from framework import Query


def c15_queries(tier):
    return []


def c02_queries(tier):
    return []

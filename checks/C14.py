from framework import Query

LEVEL = 'model_checking'
MANIFEST = {
    'level_text': 'Bounded model checking on the real code: policy B is obtained from A by rebind (and replace / remove of a facet); both '
                  'register the same class ids; A is updated by the real update<A>() and its installed state recorded; B then registers '
                  '(with an extra duplicate record), defines, updates, unregisters, updates again and replaces its handlers (real '
                  'static_list operations, real update<B>()). The solver shows, for every argument tuple, that A resolves exactly as before, '
                  'that every installed word of A (dispatch data, vptrs, indirect vptrs, static v-table pointers, slots/strides, next pointers, '
                  'catalog sizes, call_error) is bit-identical, that A::error still reaches A\'s handler, that B never dispatches to A\'s '
                  'definitions, and that corresponding statics of A and B are distinct objects (a facet that is not re-bound is shared and '
                  'fails this).',
    'level_note': 'One concrete registry per policy (Animal <- Dog, Cat; arity-2 method); facets: vptr_vector, basic_indirect_vptr, '
                  'backward_compatible_error_handler (vectored_error); hash facets: address distinctness of their statics (KIND 5) and, behaviourally, the real hash search + v-table pointer '
                  'publishing of P right after a re-bound policy Q did the same on the same arbitrary ids (c05_hash.cpp MODE 4, bounds as for C05): P as '
                  'perfect as alone, Q\'s multiplier / shift / length / control / vptrs unchanged. Interleavings with concurrent threads: C16.',
}
ASSUMPTIONS = ['single-threaded interleaving of the two policies\' operations as listed', 'container models as for C01']


def queries(tier):
    from checks import C05
    hashq = C05.queries(tier, other_policy=True)
    for q in hashq:
        q.desc = 'policy Q = P::rebind<Q> publishes (hash search + v-table pointers) on the same ids, then P does from an arbitrary prior state: P as perfect as alone (2-9), Q unchanged (30)'
    return hashq + [Query('isolation_kind%d' % k, 'c14_policies.cpp', {'KIND': k}, unwind=66, models=True, checks='none', timeout=900,
                  desc={1: 'B = A::rebind<B>', 2: 'B = A::rebind<B>::replace<error_handler, other>', 3: 'B = A::rebind<B>::remove<error_handler>', 5: 'B = A::rebind<B> with fast / checked perfect hash facets: hash statics are per policy', 4: 'B = A::rebind<B>, A built from facets with non-default extra arguments (vptr_map<A, std::map>, vectored_error<A, provider>)'}[k],
                  symbolic='the argument tuple of the calls made in A and B', bounds={'classes': 3, 'definitions': '2 + 3', 'updates': 3})
            for k in (1, 2, 3, 4, 5)]

from checks.callpath_common import q

LEVEL = 'model_checking'
MANIFEST = {
    'level_text': 'Bounded model checking of the checked policy on the real code: for an arbitrary installed state and an arbitrary '
                  'unregistered type id, every call-time route (reference, pointer, virtual_ptr from base reference, virtual_ptr from '
                  'exact static type, final with another dynamic type) must reach the error handler with unknown_class_error / '
                  'method_table_error carrying that id and abort before anything else; update-time: an unregistered id in a base list, '
                  'method parameter or definition parameter is reported by augment_classes / augment_methods before any table is installed.',
    'level_note': 'Policy: checked_perfect_hash + vptr_vector + recording error handler (the facets of the stock debug policy that matter). '
                  'shared_ptr routes are outside the bound. Update-time part runs the real compiler on an enumerated family of small '
                  'registries (see C01) with the position of the unregistered id symbolic.',
}
ASSUMPTIONS = ['unregistered id differs from every registered id and from invalid_type',
               'installed state satisfies the publish invariant (asserted by C05/C01 checks)']


def queries(tier):
    qs = []
    names = {1: 'reference', 2: 'virtual_ptr_from_base_ref', 3: 'virtual_ptr_exact_static_type', 4: 'pointer', 5: 'final_exact_static_type'}
    for r in (1, 2, 3, 4, 5):
        qs.append(q('unregistered_' + names[r], 4, pol=3, route=r, covers=(950,),
                    desc='checked policy, dynamic class not registered, route: ' + names[r] + ' -> unknown_class_error(type) then abort, nothing else first'))
    qs.append(q('final_wrong_dynamic_type', 5, pol=3, covers=(950,), desc='final on an object of another dynamic type -> method_table_error(type), abort'))
    from checks import C05
    qs += [x for x in C05.queries(tier) if x.name.startswith('lookup_')]
    from checks import update_common
    qs += update_common.c15_queries(tier)
    return qs

from framework import Query

LEVEL = 'model_checking'
MANIFEST = {
    'level_text': 'Bounded model checking on the real code. (a) Which calls are errors: the dispatch cell computed by the real compiler for '
                  'every argument tuple equals the oracle (no applicable definition -> not-implemented handler, several but no dominant one -> '
                  'ambiguous handler), shared with the C01 queries. (b) What is reported: the real not_implemented_handler / ambiguous_handler '
                  'run on arguments with arbitrary dynamic ids under each error facet; the solver shows the handler receives exactly one '
                  'resolution_error whose status, arity (= number of virtual parameters) and type ids (= dynamic ids of exactly the virtual '
                  'arguments, in order) are right, and that a returning handler is followed by abort, never by a dispatched call.',
    'level_note': 'Signature shapes: virtual parameters first / last / separated by int and double, reference, pointer and virtual_ptr '
                  'parameters, arity 1..3. Facets: harness error facet, vectored_error with std::function, backward_compatible_error_handler '
                  'with call_error. Exceptions (throw_error unwinding to the caller) cannot be encoded: the IR is built with -fno-exceptions; '
                  'stated as outside the claim.',
}
ASSUMPTIONS = ['abort() ends the path (stub); exceptions thrown by a handler are outside the encoding',
               'custom RTTI facet returns a sentinel id for non-class arguments so that a non-virtual argument leaking into the report is visible']


def queries(tier):
    qs = []
    combos = [(1, 1), (2, 1), (3, 1), (4, 1), (5, 1), (6, 1), (3, 2), (2, 3), (4, 3)] if tier == 'quick' else \
        [(s, h) for s in range(1, 7) for h in (1, 2, 3)]
    for shape, handler in combos:
        qs.append(Query('report_shape%d_handler%d' % (shape, handler), 'c02_errors.cpp', {'SHAPE': shape, 'HANDLER': handler}, unwind=18,
                        checks='none', covers=(950,), timeout=600,
                        desc='not_implemented_handler / ambiguous_handler, signature shape %d, error facet %d' % (shape, handler),
                        symbolic='dynamic ids of the virtual arguments, which of the two handlers, non-virtual argument values',
                        bounds={'arity': '1..3', 'unwind': 18}))
    from checks import update_common
    qs += update_common.c02_queries(tier)
    return qs

from framework import Query

LEVEL = 'model_checking'
MANIFEST = {
    'level_text': 'Writer half only. Bounded model checking of the real generator::write_forward_declarations on a std::set of 2 (3 in '
                  'thorough) qualified names whose characters are solver variables over {a, b, :} (lengths are query parameters, well-formed '
                  'qualified names assumed): the text written must equal, character by character, the output of a reference writer that '
                  'works component-wise from the specification (close what is not shared with the previous name, open what is missing, '
                  'declare the class) - balanced and declaring each name once in exactly its namespace by construction. Names whose '
                  'namespaces share leading characters at different depths are inside the explored space.',
    'level_note': 'The extraction half (add_forward_declaration through std::regex, keyword / std:: / yorel:: filters) cannot be encoded: '
                  'libstdc++\'s regex compiler and executor (locale facets, virtual calls, heap-grown state stacks) are beyond the translator and '
                  'CBMC; it is outside the claim. std::string / std::set are the real libstdc++ templates (instantiated in the TU with '
                  '_GLIBCXX_EXTERN_TEMPLATE=0); the red-black rebalancing routine of libstdc++.so is replaced by an unbalanced insert with the '
                  'same in-order semantics; the ostream insertion routine records the characters.',
}
ASSUMPTIONS = ['names are well-formed qualified names over the alphabet {a, b} with :: separators, pairwise distinct',
               'lengths per query: see bounds; longer names and more than 3 names are outside the bound']


def queries(tier):
    lens2 = [(1, 4), (4, 4), (4, 5), (5, 4), (4, 7), (7, 4), (7, 7), (5, 8), (8, 8)] if tier == 'quick' else \
        [(a, b) for a in (1, 4, 5, 7, 8) for b in (1, 4, 5, 7, 8)]
    qs = []
    for a, b in lens2:
        qs.append(Query('writer_2names_len%d_%d' % (a, b), 'c19_fwd.cpp', {'NNAMES': 2, 'LEN0': a, 'LEN1': b}, unwind=13, models=False, env=True, rtti=True,
                        checks='none', timeout=900, extra_clang=['-D_GLIBCXX_EXTERN_TEMPLATE=0', '-DVERIF_SET_MODEL'],
                        desc='write_forward_declarations on two names of %d and %d characters' % (a, b),
                        symbolic='every character of every name (a, b or :)', bounds={'names': 2, 'lengths': [a, b], 'alphabet': 'a b :'}, diff_random=8))
    lens3 = [(4, 4, 4), (1, 4, 7)] if tier == 'quick' else [(4, 4, 4), (1, 4, 7), (4, 5, 7), (7, 7, 7), (4, 7, 8)]
    for a, b, c in lens3:
        qs.append(Query('writer_3names_len%d_%d_%d' % (a, b, c), 'c19_fwd.cpp', {'NNAMES': 3, 'LEN0': a, 'LEN1': b, 'LEN2': c}, unwind=13, models=False, env=True,
                        rtti=True, checks='none', timeout=1500, extra_clang=['-D_GLIBCXX_EXTERN_TEMPLATE=0', '-DVERIF_SET_MODEL'],
                        desc='write_forward_declarations on three names of %d, %d and %d characters' % (a, b, c),
                        symbolic='every character of every name (a, b or :)', bounds={'names': 3, 'lengths': [a, b, c], 'alphabet': 'a b :'}, diff_random=8))
    return qs

from framework import Query

LEVEL = 'model_checking'
MANIFEST = {
    'level_text': 'Bounded model checking on the real code. (a) generator::write_static_offsets runs on a method_info whose installed '
                  'slots_strides array is ARBITRARY (arity 1..4): the numbers it writes must be, position by position, slots[0..arity) then '
                  'strides[0..arity-1) in the layout install_gv uses. (b) a method with a static_offsets specialisation (constants) runs '
                  'resolve under a runtime_checks policy with ARBITRARY installed offsets: a static_slot_error / static_stride_error is '
                  'reported (then abort) iff some position differs, otherwise resolve returns what the run-time walk returns; also without '
                  'runtime_checks with equal offsets; the same call site is judged again after a later update installed other arbitrary offsets.',
    'level_note': 'Arity 1..3 for (b), reference and virtual_ptr arguments, non-virtual parameters between virtual ones; ostream inserters are '
                  'recording stubs in the CBMC build of (a) (formatting is not the subject, the inserted values are) and demangle is stubbed in '
                  'both builds; programs compiled with a generated header are represented by the static_offsets specialisation of (b).',
}
ASSUMPTIONS = ['ostream inserters record the inserted integers (CBMC build); boost::core::demangle returns an empty name (both builds)',
               'installed slots / strides range over 0..7']


def queries(tier):
    qs = []
    for ar in (1, 2, 3):
        for route in ((1, 2) if (tier == 'thorough' or ar >= 2) else (1,)):
            qs.append(Query('crosscheck_arity%d_route%d' % (ar, route), 'c12_static.cpp', {'ARITY': ar, 'ROUTE': route, 'CHECKED': 1}, unwind=20,
                            models=True, checks='none', covers=(999, 950, 901), timeout=600,
                            desc='static offsets vs arbitrary installed offsets under runtime_checks, arity %d, %s arguments' % (ar, 'reference' if route == 1 else 'virtual_ptr'),
                            symbolic='installed slots and strides (0..7 each), group numbers of the arguments', bounds={'arity': ar}))
    for ar in ((1, 2) if tier == 'quick' else (1, 2, 3)):
        qs.append(Query('crosscheck_two_updates_arity%d' % ar, 'c12_static.cpp', {'ARITY': ar, 'ROUTE': 1, 'CHECKED': 1, 'TWO_CALLS': 1}, unwind=20,
                        models=True, checks='none', covers=(999, 950, 901), timeout=600,
                        desc='the same call site judged again after a later update installed other offsets, arity %d' % ar,
                        symbolic='installed slots and strides before and after the later update (0..7 each), group numbers', bounds={'arity': ar, 'calls': 2}))
    for ar in (1, 2, 3, 4):
        qs.append(Query('generator_offsets_arity%d' % ar, 'c12_generator.cpp', {'ARITY': ar}, unwind=90, models=False, env=True, rtti=True,
                        checks='none', timeout=600, desc='write_static_offsets on arbitrary installed slots/strides, arity %d' % ar,
                        symbolic='the 2*arity-1 installed words (0..99)', bounds={'arity': ar}))
    return qs

import itertools
import os
import random
from framework import Query

LEVEL = 'model_checking'
MANIFEST = {
    'level_text': 'Bounded model checking of a generated family of programs (parameter kind x inheritance shape x position x companion '
                  'category): each calls the real method::operator() -> resolve -> the thunk add_function built -> virtual_traits::cast / '
                  'optimal_cast -> the definition. The solver shows, for every caller object, scalar argument and return value, that the '
                  'definition sees the address of the corresponding sub-object of the very object passed (with the offset adjustment of a '
                  'second base), that references bind to the caller\'s own objects, that scalars and the return value pass through unchanged '
                  'and that tracked rvalues are never copied.',
    'level_note': 'Kinds T&, T&&, T*, virtual_ptr<T>; inheritance: same class, single, second base at non-zero offset, two levels. Virtual '
                  'bases are covered with a policy-supplied dynamic_cast_ref (std_rtti\'s dynamic_cast itself needs the C++ runtime and is '
                  'outside the claim). Outside the claim: shared_ptr / '
                  'virtual_shared_ptr kinds (std::shared_ptr control blocks). A move-only object can only be passed by rvalue reference (a by-value '
                  'move-only parameter does not compile: the thunk copies by-value arguments), which is the form checked.',
}
ASSUMPTIONS = ['installed state: uni-method, slot 0 of the class v-table holds the thunk registered by add_function (update itself: C01/C04)']


def queries(tier):
    combos = list(itertools.product((1, 2, 3, 4), (1, 2, 3, 4), (1, 2, 3), (1, 2, 3, 4)))
    if tier == 'quick':
        rnd = random.Random(int(os.environ.get('VERIF_SEED', '1') or 1) * 101 + 7)
        fixed = [(1, 3, 2, 1), (2, 3, 1, 3), (3, 3, 3, 2), (4, 3, 2, 4), (1, 4, 1, 4), (4, 2, 3, 3), (2, 2, 2, 2), (3, 1, 1, 1)]
        rest = [c for c in combos if c not in fixed]
        rnd.shuffle(rest)
        combos = fixed + rest[:16]
    qs = []
    for k, i, p, c in combos:
        qs.append(Query('args_kind%d_inh%d_pos%d_comp%d' % (k, i, p, c), 'c11_args.cpp', {'KIND': k, 'INH': i, 'POS': p, 'COMP': c}, unwind=12,
                        models=True, checks='none', timeout=600,
                        desc='kind %s, inheritance %s, position %d, companions %s' % (
                            {1: 'T&', 2: 'T&&', 3: 'T*', 4: 'virtual_ptr<T>'}[k], {1: 'same', 2: 'single', 3: 'second base (offset)', 4: 'two levels'}[i], p,
                            {1: 'int by value', 2: 'lvalue refs', 3: 'tracked rvalue ref', 4: 'move-only rvalue ref'}[c]),
                        symbolic='which caller object, scalar argument values, return value', bounds={'program': [k, i, p, c]}, diff_random=3))
    for k in (1, 3, 4):
        qs.append(Query('args_virtual_base_kind%d' % k, 'c11_vbase.cpp', {'KIND': k}, unwind=12, models=True, checks='none', timeout=600,
                        desc='method class is a virtual base of the definition class (policy downcast), objects of two dynamic classes, kind %d' % k,
                        symbolic='order of the calls, scalar arguments', bounds={'program': 'virtual base, kind %d' % k}, diff_random=3))
    return qs

"""Concrete registries for the update-side harness (harness/update.cpp): lattice shapes, presentations, orders."""
import itertools
import random

SHAPE_AR = {1: 1, 2: 2, 3: 3, 4: 1, 5: 2, 6: 2, 7: 2, 8: 4}

# name -> list of direct-base lists (class i may only list classes < i)
LATTICES = {
    'single': [[]],
    'chain2': [[], [0]],
    'chain3': [[], [0], [1]],
    'tree3': [[], [0], [0]],
    'two_roots': [[], []],
    'vee': [[], [], [0, 1]],
    'diamond': [[], [0], [0], [1, 2]],
    'chain4': [[], [0], [1], [2]],
    'tree4': [[], [0], [0], [1]],
    'n_shape': [[], [], [0], [0, 1]],
    'three_roots_join': [[], [], [], [0, 1, 2]],
    'probe_c04': [[], [], [0], [2, 1]],                 # C10, C11, C12:{C10}, C15:{C12,C11}
    'diamond_tail': [[], [0], [0], [1, 2], [3]],
    'two_diamonds': [[], [0], [0], [1, 2], [1, 2]],
    'w_shape': [[], [], [], [0, 1], [1, 2]],
    'probe_c06': [[], [0], [0], [0], [1, 2, 3], [], [5], [6]],  # T, X,Y,Z:{T}, W:{X,Y,Z}, P, Q:{P}, R:{Q}
    'deep_mi': [[], [0], [0], [1], [2], [3, 4]],
}


def closure(direct):
    n = len(direct)
    anc = [[i == j or j in direct[i] for j in range(n)] for i in range(n)]
    for k in range(n):
        for i in range(n):
            for j in range(n):
                if anc[i][k] and anc[k][j]:
                    anc[i][j] = True
    return anc


class Registry:
    def __init__(self, name, direct, methods, defs, presentation='complete', rec_order=None, m_order=None, d_order=None,
                 ids=None, alias=False):
        self.name = name
        self.direct = direct
        self.nc = len(direct)
        self.anc = closure(direct)
        self.methods = methods      # [(shape, [class,...])]
        self.defs = defs            # per method: [[class,...], ...]
        self.presentation = presentation
        self.ids = ids or [i + 1 for i in range(self.nc)]
        self.alias = alias
        self.records = self.make_records(presentation)
        if alias == 'split':
            # first id: bare record (the class only); second id (id + ALIAS_OFFSET): the record with the base list
            self.records = [(c, [c], False) for (c, b, _) in self.records] + [(c, b, True) for (c, b, _) in self.records]
        elif alias:
            # every class also registered under its second id (id + ALIAS_OFFSET), same base list
            self.records = self.records + [(c, b, True) for (c, b, _) in self.records]
        self.rec_order = rec_order or list(range(len(self.records)))
        self.m_order = m_order or list(range(len(methods)))
        self.d_order = d_order or [list(range(len(d))) for d in defs]

    def make_records(self, pres):
        recs = []
        for c in range(self.nc):
            trans = [b for b in range(self.nc) if self.anc[c][b] and b != c]
            direct = list(self.direct[c])
            if pres == 'complete':          # what use_classes<all classes> produces: the class itself + every base
                recs.append((c, [c] + trans, False))
            elif pres == 'direct':          # incremental registration: class + direct bases only
                recs.append((c, [c] + direct, False))
            elif pres == 'direct_noself':
                recs.append((c, direct, False))
            elif pres == 'redundant':       # duplicates and every base
                recs.append((c, [c] + trans + direct + [c], False))
            elif pres == 'split':           # one record per direct base + one bare record
                recs.append((c, [c], False))
                for b in direct:
                    recs.append((c, [b, c], False))
            elif pres == 'split_trans':     # direct bases in one record, the remaining transitive ones in another, reversed
                recs.append((c, list(reversed([c] + direct)), False))
                rest = [b for b in trans if b not in direct]
                if rest:
                    recs.append((c, rest, False))
            else:
                raise ValueError(pres)
        return recs

    def header(self, extra=''):
        nc, nm = self.nc, len(self.methods)
        recs = [self.records[i] for i in self.rec_order]
        maxd = max([len(d) for d in self.defs] + [1])
        maxb = max(len(r[1]) for r in recs) if recs else 1
        L = []
        L.append('// generated: registry %s, presentation %s' % (self.name, self.presentation))
        L.append('#define NC %d' % nc)
        L.append('#define NREC %d' % len(recs))
        L.append('#define NM %d' % nm)
        L.append('#define MAXD %d' % maxd)
        L.append('#define ALIAS_OFFSET 8')
        L.append('#define MAXB %d' % max(maxb, 1))
        for i, (shape, _) in enumerate(self.methods):
            L.append('#define M%d_SHAPE %d' % (i, shape))
        L.append('static const type_id CLASS_ID[NC] = {%s};' % ', '.join(str(x) for x in self.ids))
        L.append('static const int REC_CLASS[NREC] = {%s};' % ', '.join(str(r[0]) for r in recs))
        L.append('static const type_id REC_ID[NREC] = {%s};' % ', '.join(('(%s) + %d' % (self.ids[r[0]], 8 if r[2] else 0)) if isinstance(self.ids[r[0]], str) else str(self.ids[r[0]] + (8 if r[2] else 0)) for r in recs))
        L.append('static const int REC_NB[NREC] = {%s};' % ', '.join(str(len(r[1])) for r in recs))
        L.append('static const int REC_BASES[NREC][MAXB] = {%s};' % (', '.join('{' + ', '.join(str(b) for b in (r[1] or [0])) + '}' for r in recs)))
        L.append('static const bool TRUE_BASE[NC][NC] = {%s};' % ', '.join('{' + ', '.join('1' if j in self.direct[i] else '0' for j in range(nc)) + '}' for i in range(nc)))
        L.append('static const int M_VP[NM][4] = {%s};' % ', '.join('{' + ', '.join(str(c) for c in vp) + '}' for _, vp in self.methods))
        L.append('static const int M_ORDER[NM] = {%s};' % ', '.join(str(x) for x in self.m_order))
        L.append('static const int D_N[NM] = {%s};' % ', '.join(str(len(d)) for d in self.defs))
        rows = []
        for d in self.defs:
            tuples = ['{' + ', '.join(str(c) for c in t) + '}' for t in d] or ['{0}']
            rows.append('{' + ', '.join(tuples) + '}')
        L.append('static const int D_VP[NM][MAXD][4] = {%s};' % ', '.join(rows))
        L.append('static const int D_ORDER[NM][MAXD] = {%s};' % ', '.join('{' + ', '.join(str(x) for x in (o or [0])) + '}' for o in self.d_order))
        L.append(extra)
        return '\n'.join(L) + '\n'

    def describe(self):
        return {'lattice': self.name, 'direct_bases': self.direct, 'presentation': self.presentation,
                'methods': [{'shape': s, 'params': vp} for s, vp in self.methods], 'definitions': self.defs,
                'record_order': self.rec_order, 'method_order': self.m_order, 'definition_order': self.d_order}


def random_registry(rnd, lname, nm=None, max_defs=3, shapes=(1, 2, 2, 5, 3), presentation='complete'):
    """Sample methods / definitions on a named lattice.  Sizes are kept inside the container-model capacities by
    construction (dispatch cells of a method <= 24, of all methods <= 40), so that no seed produces a bound-exceeded run."""
    direct = LATTICES[lname]
    nc = len(direct)
    anc = closure(direct)
    nm = nm or rnd.choice((1, 2))
    for _attempt in range(200):
        methods, defs = [], []
        total_cells = 0
        for _ in range(nm):
            shape = rnd.choice(shapes)
            ar = SHAPE_AR[shape]
            vp = [rnd.randrange(nc) for _ in range(ar)]
            # prefer parameters with several derived classes
            for p in range(ar):
                cands = [c for c in range(nc) if sum(anc[d][c] for d in range(nc)) >= 2] or list(range(nc))
                if rnd.random() < 0.8:
                    vp[p] = rnd.choice(cands)
            cells = 1
            for p in range(ar):
                cells *= sum(anc[d][vp[p]] for d in range(nc))
            nd = rnd.randrange(0, max_defs + 1)
            ds = []
            for _ in range(nd):
                t = [rnd.choice([d for d in range(nc) if anc[d][vp[p]]]) for p in range(ar)]
                if t not in ds:
                    ds.append(t)
            methods.append((shape, vp))
            defs.append(ds)
            if ar > 1:
                total_cells += cells
                if cells > 24:
                    total_cells = 10 ** 6
        if total_cells <= 40:
            break
    return Registry(lname, direct, methods, defs, presentation)


def permuted(reg, rnd):
    ro = list(range(len(reg.records))); rnd.shuffle(ro)
    mo = list(range(len(reg.methods))); rnd.shuffle(mo)
    do = []
    for d in reg.defs:
        o = list(range(len(d))); rnd.shuffle(o); do.append(o)
    return Registry(reg.name, reg.direct, reg.methods, reg.defs, reg.presentation, ro, mo, do, reg.ids, reg.alias)

#!/usr/bin/env python3
"""usage: runner.py <property id> [--tier quick|thorough] [--keep] [--only substr] [--replay file --query name]"""
import argparse
import importlib
import os
import sys

sys.path.insert(0, os.path.dirname(os.path.abspath(__file__)))
import framework as fw


def main():
    ap = argparse.ArgumentParser()
    ap.add_argument('pid')
    ap.add_argument('--tier', default=os.environ.get('VERIF_TIER', 'quick'))
    ap.add_argument('--keep', action='store_true')
    ap.add_argument('--only', default=None)
    ap.add_argument('--replay', default=None)
    ap.add_argument('--query', default=None)
    a = ap.parse_args()
    mod = importlib.import_module('checks.' + a.pid)
    qs = mod.queries(a.tier)
    if a.replay:
        return fw.replay(a.pid, qs, a.query, a.replay)
    if a.only:
        qs = [q for q in qs if a.only in q.name]
    rc = fw.run_property(a.pid, a.tier, qs, level=getattr(mod, 'LEVEL', 'model_checking'),
                         assumptions=getattr(mod, 'ASSUMPTIONS', ()), trusted=getattr(mod, 'TRUSTED', ()), keep=a.keep,
                         partial=bool(a.only), extra=getattr(mod, 'extra_checks', None),
                         workers=(getattr(mod, 'WORKERS', {}) or {}).get(a.tier))
    return rc


if __name__ == '__main__':
    sys.exit(main())
